"""E6: the boost::program_options table of ProgramOptions, read off the AST of
its constructor: one record per `(name, po::value<T>(&field)->default_value(..), descr)`
link of an add_options() chain, plus the group graph built by `.add(group)`."""
import re
from . import ast as A
from .compdb import AnalysisBroken


class Option:
    def __init__(self, **kw):
        self.__dict__.update(kw)

    def __repr__(self):
        return "<%s/%s %s -> %s%s%s in %s>" % (self.name, self.short or "", self.vtype, self.field,
                                               " default" if self.has_default else "",
                                               " implicit" if self.has_implicit else "", self.group)


class Table:
    def __init__(self, prog, cls="vfps::ProgramOptions"):
        ctors = prog.fns(cls + "::ProgramOptions")
        A.require(len(ctors) == 1, "ProgramOptions constructor not found")
        self.ctor = c = ctors[0]
        self.options = []
        self.adds = []      # (parent group, child group, line)
        for x in A.walk(c["body"]):
            if x["k"] == "CXXOperatorCallExpr" and x.get("op") == "()" and \
                    x.get("callee_class") == "boost::program_options::options_description_easy_init":
                self._option(x)
            if x["k"] == "CXXMemberCallExpr" and x.get("callee") == "boost::program_options::options_description::add" \
                    and len(x.get("args", [])) == 1:
                parent = A.this_field(A.call_object(x))
                child = A.this_field(x["args"][0])
                A.require(parent and child, "ProgramOptions: options_description::add on something that is not a member")
                self.adds.append((parent, child, x["line"]))
        A.require(len(self.options) >= 60, "ProgramOptions: only %d option declarations found" % len(self.options))
        self.by_group = {}
        for o in self.options:
            self.by_group.setdefault(o.group, []).append(o)

    def _option(self, x):
        args = x["args"]
        # root of the chain -> group
        cur = args[0]
        guard = 0
        while True:
            guard += 1
            n = A.strip(cur, casts=False)
            if n["k"] == "CXXOperatorCallExpr" and n.get("op") == "()":
                cur = n["args"][0]
                continue
            break
        A.require(n["k"] == "CXXMemberCallExpr" and n.get("callee", "").endswith("::add_options"),
                  "ProgramOptions: option chain does not start at add_options()")
        group = A.this_field(A.call_object(n))
        A.require(group, "ProgramOptions: add_options() on something that is not a member")
        lit = [y for y in A.walk(args[1]) if y["k"] == "StringLiteral"]
        A.require(len(lit) == 1, "ProgramOptions: option name is not a string literal")
        full = lit[0]["value"]
        name, _, short = full.partition(",")
        dl = [y for y in A.walk(args[-1]) if y["k"] == "StringLiteral"]
        descr = dl[0]["value"] if dl else ""
        vtype = field = None
        has_default = has_implicit = multitoken = False
        composing = False
        other_modifiers = []
        default_text = None
        if len(args) == 4:
            for y in A.walk(args[2]):
                if y["k"] == "CallExpr" and y.get("callee") == "boost::program_options::value":
                    m = re.match(r"boost::program_options::value\((.*?) \*\)(?: -> .*)?$", y.get("callee_sig", ""))
                    A.require(m, "ProgramOptions: cannot read value type of %s" % name)
                    vtype = m.group(1)
                    a = A.strip(y["args"][0])
                    A.require(a["k"] == "UnaryOperator" and a["op"] == "&", "ProgramOptions: %s not bound by &field" % name)
                    field = A.this_field(a["c"][0])
                    A.require(field, "ProgramOptions: %s bound to something that is not a member" % name)
                if y["k"] == "CXXMemberCallExpr":
                    m = (y.get("callee") or "").split("::")[-1]
                    if m == "default_value":
                        has_default = True
                        default_text = A.show(y["args"][0]) if y.get("args") else None
                    elif m == "implicit_value":
                        has_implicit = True
                    elif m == "multitoken":
                        multitoken = True
                    elif m == "composing":
                        composing = True
                    elif m not in ("value",):
                        other_modifiers.append(m)
            A.require(vtype is not None, "ProgramOptions: option %s has a semantic that is not po::value<T>(&field)" % name)
        self.options.append(Option(name=name, short=short, vtype=vtype, field=field, has_default=has_default,
                                   has_implicit=has_implicit, multitoken=multitoken, group=group, line=lit[0]["line"],
                                   default_text=default_text, descr=descr, composing=composing,
                                   other_modifiers=other_modifiers))

    def members(self, group):
        """all options reachable from a group through .add()"""
        seen, st, out = set(), [group], []
        while st:
            g = st.pop()
            if g in seen:
                continue
            seen.add(g)
            out += self.by_group.get(g, [])
            st += [c for p, c, l in self.adds if p == g]
        return out

    def group_closure(self, group):
        seen, st = set(), [group]
        while st:
            g = st.pop()
            if g in seen:
                continue
            seen.add(g)
            st += [c for p, c, l in self.adds if p == g]
        return seen


def vm_mutations(prog):
    """Every statement of ProgramOptions::parse that changes the variables map (`store(...)` or an assignment
    through `_vm`), with the verdict whether a `notify(_vm)` follows on every path before parse() can return
    true.  The saved .cfg is written from the map while the run uses the bound fields: they agree only if
    every change of the map is notified."""
    from . import flow as Fl
    pf = prog.fn("vfps::ProgramOptions::parse")
    g = Fl.CFG(pf)
    is_notify = Fl.is_call_to("boost::program_options::notify")

    def is_mut(n):
        if n.get("k") == "CallExpr" and n.get("callee") == "boost::program_options::store":
            return True
        if n.get("k") in ("CXXOperatorCallExpr", "BinaryOperator") and n.get("op") == "=":
            lhs = n["args"][0] if n["k"] == "CXXOperatorCallExpr" else n["c"][0]
            return "_vm" in A.show(lhs)
        if n.get("k") == "CXXMemberCallExpr" and not n.get("callee_const"):
            o = A.call_object(n)
            if o is not None and A.this_field(o) == "_vm" and (n.get("callee") or "").split("::")[-1] in ("erase", "clear", "insert", "emplace", "swap"):
                return True
        return False
    ret_true = lambda n: n.get("k") == "ReturnStmt" and n.get("c") and A.strip(n["c"][0]).get("value") is True
    out = []
    for b, i, n in g.events(is_mut):
        escapes = g.some_path_between((b, i), ret_true, avoid_pred=is_notify)
        out.append((n, not escapes))
    return pf, out
