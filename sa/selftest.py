"""Positive controls: apply one small breaking edit (mutant) to a scratch copy of /repo, run the
property's rules on the copy and require that they report a violation that names the broken
instance.  Scratch copies live under /tmp and are removed immediately.

./check selftest            all mutants
python3-vt -m sa.selftest C02 [name-substring]
"""
import json, os, shutil, subprocess, sys, tempfile, hashlib
from .compdb import VERIF, CACHE

REPO = "/repo"


def load_table():
    import importlib.util
    spec = importlib.util.spec_from_file_location("mutants_table", os.path.join(VERIF, "mutants", "table.py"))
    m = importlib.util.module_from_spec(spec)
    spec.loader.exec_module(m)
    return m.MUTANTS


def make_scratch():
    d = tempfile.mkdtemp(prefix="isa-mut-")
    for sub in ("src", "inc", "cmake", "test"):
        shutil.copytree(os.path.join(REPO, sub), os.path.join(d, sub))
    for f in ("CMakeLists.txt", "InovesaConfig.hpp.in"):
        shutil.copy(os.path.join(REPO, f), os.path.join(d, f))
    return d


def drop_scratch(d):
    shutil.rmtree(d, ignore_errors=True)
    tag = "-s" + hashlib.sha256(os.path.realpath(d).encode()).hexdigest()[:6]
    if os.path.isdir(CACHE):
        for x in os.listdir(CACHE):
            if tag in x:
                shutil.rmtree(os.path.join(CACHE, x), ignore_errors=True)


def apply_edits(d, edits):
    for rel, old, new in edits:
        p = os.path.join(d, rel)
        s = open(p).read()
        if s.count(old) != 1:
            return "edit anchor occurs %d times in %s: %r" % (s.count(old), rel, old[:60])
        open(p, "w").write(s.replace(old, new))
    return None


def apply_patch(d, patch):
    r = subprocess.run(["patch", "-p1", "-s", "-d", d, "-i", patch], stdout=subprocess.PIPE, stderr=subprocess.STDOUT, text=True)
    return None if r.returncode == 0 else r.stdout


def run_check(d, prop):
    env = dict(os.environ, ISA_REPO=d, ISA_EVIDENCE_DIR=os.path.join(d, "_evidence"))
    r = subprocess.run(["python3-vt", "-m", "sa.main", prop, "--tier", "quick"], cwd=VERIF, env=env,
                       stdout=subprocess.PIPE, stderr=subprocess.STDOUT, text=True)
    return r.returncode, r.stdout


def run_mutant(m):
    d = make_scratch()
    try:
        err = apply_patch(d, os.path.join(VERIF, m["patch"])) if "patch" in m else apply_edits(d, m["edits"])
        if err:
            return dict(name=m["name"], property=m["property"], outcome="mutant-broken", detail=err)
        rc, out = run_check(d, m["property"])
        expect = m.get("expect", "")
        if m.get("benign"):
            # behaviour-preserving edit: the check must stay silent
            quiet = rc == 0 and "VIOLATION" not in out
            return dict(name=m["name"], property=m["property"], outcome="detected" if quiet else "FALSE-ALARM", rc=rc,
                        detail=[l for l in out.splitlines() if l.startswith("  ") or "BROKEN" in l][:6])
        hit = rc == 1 and "VIOLATION property=%s" % m["property"] in out and (expect in out)
        return dict(name=m["name"], property=m["property"], outcome="detected" if hit else "MISSED",
                    rc=rc, expect=expect,
                    detail=[l for l in out.splitlines() if l.startswith("  ") or "BROKEN" in l][:6])
    finally:
        drop_scratch(d)


def run_for(prop=None, sub=None, jobs=4):
    from concurrent.futures import ThreadPoolExecutor
    ms = [m for m in load_table() if (prop is None or m["property"] == prop) and (sub is None or sub in m["name"])]
    with ThreadPoolExecutor(max_workers=jobs) as ex:
        return list(ex.map(run_mutant, ms))


def main(tier="quick"):
    prop = sys.argv[1] if len(sys.argv) > 1 and sys.argv[1] not in ("selftest", "", "all") else None
    sub = sys.argv[2] if len(sys.argv) > 2 else None
    res = run_for(prop, sub)
    bad = 0
    for r in res:
        print("%-8s %-40s %s" % (r["property"], r["name"], r["outcome"] if not r["name"].startswith("benign") else
                                 {"detected": "silent (ok)"}.get(r["outcome"], r["outcome"])))
        if r["outcome"] != "detected":
            bad += 1
            print("     ", r.get("rc"), r.get("detail"))
    print("%d mutants, %d not detected" % (len(res), bad))
    return 1 if bad else 0


if __name__ == "__main__":
    sys.exit(main())
