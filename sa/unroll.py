"""E8 — algebraic normal form of a table-filling function by bounded unrolling.

The index-map scanner (E2) recognises `cell = 0; for i: cell += term(i)` and hands out the summand.  A refactored fill (Horner scheme,
coefficients prepared in a local vector first, running power kept in a scalar) has no summand to hand out.  This engine computes the
closed form instead: it walks the statements of the function in order, keeps for every local scalar its current polynomial (sympy) and
for every local vector the list of its elements, unrolls every loop whose trip count is a known integer once the lengths of the
parameter vectors are fixed (they are taken from the construction site in main), and treats a loop over a symbolic range (the rows of
the grid) as parametric in its counter provided nothing is carried from one iteration to the next.  The result is, per stored cell
`field[counter]`, one expression in the parameters, the axis symbols and the elements of the parameter vectors.

It is an abstract interpretation in the domain of polynomial expressions over straight-line code with concrete inner trip counts: no
path is enumerated (a branch whose condition is not a constant of the unrolling makes the function Unconvertible), no input is chosen.
"""
import sympy as sp
from . import ast as A
from .algebra import Translator, Unconvertible

MAX_TRIPS = 64


class Vec(list):
    pass


class Unroller:
    def __init__(self, fn, hooks=(), vec_len=None, target_fields=()):
        self.fn = fn
        self.vec_len = dict(vec_len or {})          # parameter name -> length
        self.targets = set(target_fields)
        self.vals = {}                              # decl id -> sympy expr | Vec
        self.names = {}
        self.cells = {}                             # (field, idx expr) -> value
        self.order = []                             # [(field, idx, line)] in first-store order
        self.param_loops = []                       # symbols of parametric loops currently open
        self.opaque_calls = []
        self.tr = Translator(hooks=[self._hook] + list(hooks))
        for p in fn.get("params", []):
            if p["name"] in self.vec_len:
                self.vals[p["decl"]] = Vec(sp.IndexedBase(p["name"])[k] for k in range(self.vec_len[p["name"]]))
                self.names[p["decl"]] = p["name"]

    # ---- expressions -------------------------------------------------------------------------------------------------------
    def _vec_of(self, n):
        d = A.declref(n)
        if d is not None and isinstance(self.vals.get(d.get("decl")), Vec):
            return self.vals[d["decl"]]
        return None

    def _hook(self, n, tr):
        k = n["k"]
        if k == "DeclRefExpr" and n.get("decl") in self.vals:
            v = self.vals[n["decl"]]
            if isinstance(v, Vec):
                raise Unconvertible(n, "vector used as a value")
            return v
        if k == "CXXOperatorCallExpr" and n.get("op") == "[]" and len(n.get("args", [])) == 2:
            v = self._vec_of(n["args"][0])
            if v is not None:
                i = sp.simplify(tr.conv(n["args"][1]))
                if not i.is_Integer or not (0 <= int(i) < len(v)):
                    raise Unconvertible(n, "vector element %s of %d" % (i, len(v)))
                return v[int(i)]
            f = A.this_field(A.strip(n["args"][0]))
            if f in self.targets:
                key = (f, sp.expand(tr.conv(n["args"][1])))
                if key not in self.cells:
                    raise Unconvertible(n, "read of %s before it is stored" % f)
                return self.cells[key]
        if k == "CXXMemberCallExpr" and (n.get("callee") or "").endswith("::size") and not n.get("args"):
            v = self._vec_of(A.call_object(n))
            if v is not None:
                return sp.Integer(len(v))
        return None

    def ev(self, n):
        return self.tr.conv(n)

    # ---- statements --------------------------------------------------------------------------------------------------------
    def run(self):
        self.block(self.fn["body"])
        return self

    def block(self, n):
        if n is None:
            return
        k = n.get("k")
        if k == "CompoundStmt":
            for s in n.get("c", []):
                self.block(s)
            return
        if k in ("ExprWithCleanups", "ParenExpr") and len(n.get("c", [])) == 1:
            return self.block(n["c"][0])
        if k == "NullStmt":
            return
        if k == "DeclStmt":
            for d in n.get("decls", []):
                self.decl(d)
            return
        if k == "ForStmt":
            return self.loop(n)
        if k in ("BinaryOperator", "CompoundAssignOperator") and n.get("op", "").endswith("=") and n["op"] not in ("==", "!=", "<=", ">="):
            return self.assign(n["c"][0], n["op"], n["c"][1], n)
        if k == "CXXOperatorCallExpr" and n.get("op") in ("=", "+=", "-=", "*=", "/="):
            return self.assign(n["args"][0], n["op"], n["args"][1], n)
        if k == "UnaryOperator" and n.get("op") in ("++", "--"):
            d = A.declref(n["c"][0])
            if d is not None and d["decl"] in self.vals and not isinstance(self.vals[d["decl"]], Vec):
                self.vals[d["decl"]] = self.vals[d["decl"]] + (1 if n["op"] == "++" else -1)
                return
        if k == "CXXMemberCallExpr":
            obj = A.call_object(n)
            if obj is None or A.is_this(A.strip(obj)):
                if not any(y.get("k") == "DeclRefExpr" and isinstance(self.vals.get(y.get("decl")), Vec) for a_ in n.get("args", []) for y in A.walk(a_)):
                    self.opaque_calls.append((n.get("callee"), n.get("line")))
                    return
        if k == "IfStmt":
            c = self._const_cond(n["cond"])
            if c is True:
                return self.block(n.get("then"))
            if c is False:
                return self.block(n.get("else"))
        raise Unconvertible(n, "statement %s not modelled by the unroller" % k)

    def _const_cond(self, c):
        c = A.strip(c)
        if c.get("k") == "BinaryOperator" and c.get("op") in ("<", "<=", ">", ">=", "==", "!="):
            try:
                a, b = sp.simplify(self.ev(c["c"][0])), sp.simplify(self.ev(c["c"][1]))
            except Unconvertible:
                return None
            if a.is_number and b.is_number:
                return bool({"<": a < b, "<=": a <= b, ">": a > b, ">=": a >= b, "==": sp.Eq(a, b), "!=": sp.Ne(a, b)}[c["op"]])
        return None

    def decl(self, d):
        if d.get("k") != "VarDecl":
            return
        self.names[d["decl"]] = d["name"]
        ct = d.get("ctype") or ""
        init = d.get("init")
        if ct.replace("const ", "").startswith("std::vector<"):
            if isinstance(init, dict) and self._vec_of(A.strip(init)) is not None:
                self.vals[d["decl"]] = Vec(self._vec_of(A.strip(init)))
                return
            ce = init if isinstance(init, dict) else None
            while ce is not None and ce.get("k") in ("ExprWithCleanups", "MaterializeTemporaryExpr", "CXXBindTemporaryExpr", "ImplicitCastExpr") and ce.get("c"):
                ce = ce["c"][0]
            args = (ce or {}).get("args", []) if ce else []
            args = [a_ for a_ in args if a_.get("k") != "CXXDefaultArgExpr"]
            if ce is not None and ce.get("k") == "CXXConstructExpr" and len(args) == 1:
                src = self._vec_of(args[0])
                if src is not None:
                    self.vals[d["decl"]] = Vec(src)
                    return
                n_ = sp.simplify(self.ev(args[0]))
                if n_.is_Integer and 0 <= int(n_) <= MAX_TRIPS:
                    self.vals[d["decl"]] = Vec([sp.Integer(0)] * int(n_))
                    return
            if ce is not None and ce.get("k") == "CXXConstructExpr" and len(args) == 2:
                n_ = sp.simplify(self.ev(args[0]))
                if n_.is_Integer and 0 <= int(n_) <= MAX_TRIPS:
                    self.vals[d["decl"]] = Vec([self.ev(args[1])] * int(n_))
                    return
            raise Unconvertible(d.get("init") or {"k": "VarDecl", "line": d.get("line")}, "vector %s: length not known" % d["name"])
        if isinstance(init, dict):
            self.vals[d["decl"]] = self.ev(init)
        else:
            self.vals[d["decl"]] = sp.Symbol("uninit_" + d["name"])

    def _apply(self, old, op, rhs, n):
        if op == "=":
            return rhs
        if old is None:
            raise Unconvertible(n, "compound assignment to an unknown value")
        return {"+=": old + rhs, "-=": old - rhs, "*=": old * rhs, "/=": old / rhs}[op]

    def assign(self, lhs, op, rhs, n):
        l = A.strip(lhs)
        r = self.ev(rhs)
        d = A.declref(l)
        if d is not None and l.get("k") == "DeclRefExpr":
            if isinstance(self.vals.get(d["decl"]), Vec):
                raise Unconvertible(n, "whole-vector assignment")
            if d["decl"] not in self.vals:
                raise Unconvertible(n, "assignment to %s, which the unroller does not track" % d.get("name"))
            self._touch(d["decl"])
            self.vals[d["decl"]] = self._apply(self.vals.get(d["decl"]), op, r, n)
            return
        if l.get("k") == "CXXOperatorCallExpr" and l.get("op") == "[]" or l.get("k") == "ArraySubscriptExpr":
            base, idx = (l["args"][0], l["args"][1]) if l.get("k") == "CXXOperatorCallExpr" else (l["c"][0], l["c"][1])
            v = self._vec_of(base)
            if v is not None:
                i = sp.simplify(self.ev(idx))
                if not i.is_Integer or not (0 <= int(i) < len(v)):
                    raise Unconvertible(n, "store to vector element %s of %d" % (i, len(v)))
                self._touch(A.declref(base)["decl"])
                v[int(i)] = self._apply(v[int(i)], op, r, n)
                return
            f = A.this_field(A.strip(base))
            if f in self.targets:
                key = (f, sp.expand(self.ev(idx)))
                if key not in self.cells:
                    self.order.append((f, key[1], n.get("line"), tuple(self.param_loops)))
                self.cells[key] = self._apply(self.cells.get(key), op, r, n)
                return
        raise Unconvertible(n, "assignment target not modelled")

    def _touch(self, decl):
        for fr in self._frames:
            if decl not in fr["own"]:
                fr["assigned"].add(decl)

    _frames = ()

    def loop(self, n):
        init, cond, inc, body = n.get("init"), A.strip(n.get("cond")) if n.get("cond") else None, n.get("inc"), n.get("body")
        if not (init and init.get("k") == "DeclStmt" and len(init.get("decls", [])) == 1 and cond is not None and inc is not None):
            raise Unconvertible(n, "loop shape")
        d = init["decls"][0]
        start = sp.simplify(self.ev(d["init"]))
        if cond.get("k") != "BinaryOperator" or cond.get("op") not in ("<", "<=", ">", ">=", "!="):
            raise Unconvertible(n, "loop condition")
        lv = A.declref(cond["c"][0])
        if lv is None or lv["decl"] != d["decl"]:
            raise Unconvertible(n, "loop condition does not test the counter")
        bound = sp.simplify(self.ev(cond["c"][1]))
        inc_ = A.strip(inc)
        step = None
        if inc_.get("k") == "UnaryOperator" and inc_.get("op") in ("++", "--") and (A.declref(inc_["c"][0]) or {}).get("decl") == d["decl"]:
            step = 1 if inc_["op"] == "++" else -1
        if step is None:
            raise Unconvertible(n, "loop increment")
        self.names[d["decl"]] = d["name"]
        if start.is_Integer and bound.is_Integer:
            i, trips = int(start), 0
            test = {"<": lambda a, b: a < b, "<=": lambda a, b: a <= b, ">": lambda a, b: a > b, ">=": lambda a, b: a >= b, "!=": lambda a, b: a != b}[cond["op"]]
            while test(i, int(bound)):
                trips += 1
                if trips > MAX_TRIPS:
                    raise Unconvertible(n, "more than %d trips" % MAX_TRIPS)
                self.vals[d["decl"]] = sp.Integer(i)
                self.block(body)
                i += step
            self.vals.pop(d["decl"], None)
            return
        # parametric loop: counter symbolic, nothing carried between iterations
        if not (cond["op"] == "<" and step == 1 and start == 0):
            raise Unconvertible(n, "symbolic loop that is not `for (c = 0; c < n; c++)`")
        sym = sp.Symbol(d["name"], integer=True, nonnegative=True)
        self.vals[d["decl"]] = sym
        own = {dd["decl"] for st in A.walk(body) if st.get("k") == "DeclStmt" for dd in st.get("decls", []) if dd.get("k") == "VarDecl"}
        frame = {"own": own | {d["decl"]}, "assigned": set()}
        self._frames = tuple(self._frames) + (frame,)
        self.param_loops.append((sym, bound))
        before = len(self.order)
        self.block(body)
        self.param_loops.pop()
        self._frames = self._frames[:-1]
        self.vals.pop(d["decl"], None)
        if frame["assigned"]:
            raise Unconvertible(n, "loop over a symbolic range carries %s between iterations" % sorted(self.names.get(x, "?") for x in frame["assigned"]))
        for f, idx, line, loops in self.order[before:]:
            if sym not in idx.free_symbols:
                raise Unconvertible(n, "cell %s[%s] stored in a symbolic loop does not depend on its counter" % (f, idx))

    # ---- results -----------------------------------------------------------------------------------------------------------
    def stores(self, field):
        """[(index expr, value, line, ((counter symbol, bound), ...))] for the cells of `field`, in first-store order"""
        return [(idx, self.cells[(f, idx)], line, loops) for f, idx, line, loops in self.order if f == field]
