"""Compile database for /repo, taken from the real build description.

The flags are obtained from `cmake -S /repo -B <cache> -G Ninja
-DCMAKE_EXPORT_COMPILE_COMMANDS=ON` (configure only; this also generates
InovesaConfig.hpp).  The configure result is cached under /verif/.cache keyed
by the content of every file cmake reads from /repo, so an edit to
CMakeLists.txt (new source file, new define) is picked up on the next run.
"""
import hashlib, json, os, shlex, shutil, subprocess, sys

REPO = os.environ.get("ISA_REPO", "/repo")
VERIF = os.path.dirname(os.path.dirname(os.path.abspath(__file__)))
CACHE = os.path.join(VERIF, ".cache")

class AnalysisBroken(Exception):
    pass

def _sha(paths):
    h = hashlib.sha256()
    for p in sorted(paths):
        h.update(os.path.relpath(p, REPO).encode())
        try:
            with open(p, "rb") as f:
                h.update(f.read())
        except OSError:
            h.update(b"<missing>")
    return h.hexdigest()[:16]

def _cmake_inputs():
    out = [os.path.join(REPO, "CMakeLists.txt"), os.path.join(REPO, "InovesaConfig.hpp.in")]
    for root, _, files in os.walk(os.path.join(REPO, "cmake")):
        for f in files:
            out.append(os.path.join(root, f))
    # aux_source_directory / explicit lists: presence of files matters
    return out

def resource_dir():
    return subprocess.check_output(["clang++", "-print-resource-dir"], text=True).strip()

DROP = {"-fext-numeric-literals", "-march=native", "-O3", "-O2", "-w", "-g"}

def load(target="inovesa"):
    """-> (list of (source, flags)), build_dir"""
    key = _sha(_cmake_inputs())
    bdir = os.path.join(CACHE, "cmake-" + key)
    db = os.path.join(bdir, "compile_commands.json")
    if not os.path.exists(db):
        os.makedirs(CACHE, exist_ok=True)
        import fcntl
        lock = open(os.path.join(CACHE, "cmake.lock"), "w")
        fcntl.flock(lock, fcntl.LOCK_EX)          # one configure at a time; concurrent checks wait and then find the result
    if not os.path.exists(db):
        for d in os.listdir(CACHE):
            if d.startswith("cmake-") and ".tmp" not in d and d != "cmake-" + key:
                shutil.rmtree(os.path.join(CACHE, d), ignore_errors=True)
        tmp = bdir + ".tmp%d" % os.getpid()
        r = subprocess.run(["cmake", "-S", REPO, "-B", tmp, "-G", "Ninja", "-Wno-dev",
                            "-DCMAKE_EXPORT_COMPILE_COMMANDS=ON"],
                           stdout=subprocess.PIPE, stderr=subprocess.STDOUT, text=True)
        if r.returncode != 0 or not os.path.exists(os.path.join(tmp, "compile_commands.json")):
            shutil.rmtree(tmp, ignore_errors=True)
            raise AnalysisBroken("cmake configure failed:\n" + r.stdout[-2000:])
        # the database mentions the temporary directory: rewrite
        txt = open(os.path.join(tmp, "compile_commands.json")).read().replace(tmp, bdir)
        open(os.path.join(tmp, "compile_commands.json"), "w").write(txt)
        open(os.path.join(tmp, "REPO"), "w").write(os.path.realpath(REPO))
        try:
            os.rename(tmp, bdir)
        except OSError:
            shutil.rmtree(tmp, ignore_errors=True)   # lost a race: other process built it
    # the database may have been configured for another checkout with identical cmake inputs
    # (scratch copies used by the mutant self-test): rewrite its source root
    made_for = open(os.path.join(bdir, "REPO")).read().strip()
    txt = open(db).read()
    here = os.path.realpath(REPO)
    if made_for != here:
        txt = txt.replace(made_for + "/", here + "/")
    entries = json.loads(txt)
    units = {}
    for e in entries:
        cmd = e.get("command") or " ".join(e["arguments"])
        if "/%s.dir/" % target not in cmd:
            continue
        args = shlex.split(cmd)
        flags = []
        i = 1
        while i < len(args):
            a = args[i]
            if a in ("-o", "-c"):
                i += 2 if a == "-o" else 1
                if a == "-c":
                    i += 1
                continue
            if a in DROP or a.startswith("-std="):
                i += 1
                continue
            flags.append(a)
            i += 1
        src = os.path.realpath(e["file"])
        units[src] = flags
    if not units:
        raise AnalysisBroken("no units for target %s in compile database" % target)
    common = ["-std=gnu++14", "-UNDEBUG", "-w", "-resource-dir", resource_dir()]
    return [(s, f + common) for s, f in sorted(units.items())], bdir
