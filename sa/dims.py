"""E7: dimensional analysis (units-of-measure inference) over the whole program.

Every arithmetic quantity gets a dimension: a vector of rational exponents over the base units (m, s, V, A) -- energies given in eV
count as volts (energy per elementary charge), so E[eV]*e[C] is a joule = V*A*s.  The analysis is a type inference in the style of
Kennedy's units of measure: every storage location (local, parameter, field, global, function result) is a dimension variable;
every expression contributes linear constraints on the exponents (`*` adds, `/` subtracts, `+ - < == =` equate, sqrt halves,
pow with a literal exponent scales, sin/exp/log... demand dimensionless arguments); the constraints are solved incrementally by
Gaussian elimination over the rationals.  A constraint that contradicts the accumulated system is a dimension conflict, reported at
its site with the call chain.

Sources of known dimensions (read off the code on every run, not frozen here):
  * the unit written in parentheses in the help text of every option: (Hz) (s) (m) (eV) (A) (V) (S/m) (1) (relative) (degree); options
    without a unit are pure numbers;
  * the physical constants of vfps::physcons (by name: a table of 7 entries, each checked against its own initialiser where it has one);
  * unit names used as keys: Ruler scale maps {"Meter", x} and HDF5 attribute names ("Meter", "Second", "Ampere", ...).
Literals are dimensionless, except the literal 0, which fits every dimension.

Functions are analysed per call site (the callee's locals, parameters and result are cloned for each call chain from main, so a
helper used with lengths here and times there is not a conflict); fields and globals have one dimension for the whole program;
vfps::Ruler is handled object-wise (dimension of its values + dimension of each named scale), because one class serves the normalised
phase-space axes, the frequency axis and the impedance's axis in Hz.

Nothing is executed and no program path is explored; floating-point values play no role.
"""
import re
from fractions import Fraction as Fr
from . import ast as A
from .compdb import AnalysisBroken, REPO
import os

BASES = ("m", "s", "V", "A")
ZERO = (Fr(0),) * 4


def vec(**kw):
    return tuple(Fr(kw.get(b, 0)) for b in BASES)


UNIT_DIM = {
    "Meter": vec(m=1), "Second": vec(s=1), "Hertz": vec(s=-1), "ElectronVolt": vec(V=1), "Volt": vec(V=1), "Ampere": vec(A=1),
    "Coulomb": vec(A=1, s=1), "Watt": vec(V=1, A=1), "WattPerHertz": vec(V=1, A=1, s=1), "Ohm": vec(V=1, A=-1), "Turn": ZERO,
    "AmperePerNBL": vec(A=1), "CoulombPerNBL": vec(A=1, s=1), "AmperePerNES": vec(A=1), "CoulombPerNES": vec(A=1, s=1),
    "AmperePerNBLPerNES": vec(A=1), "CoulombPerNBLPerNES": vec(A=1, s=1),
}
HELP_UNIT = {"Hz": vec(s=-1), "s": vec(s=1), "m": vec(m=1), "eV": vec(V=1), "A": vec(A=1), "V": vec(V=1), "S/m": vec(A=1, V=-1, m=-1),
             "1": ZERO, "relative": ZERO, "degree": ZERO}
PHYSCONS = {"c": vec(m=1, s=-1), "epsilon0": vec(A=1, s=1, V=-1, m=-1), "mu0": vec(V=1, s=1, A=-1, m=-1), "Z0": vec(V=1, A=-1),
            "e": vec(A=1, s=1), "me": vec(V=1), "IAlfven": vec(A=1)}


def fmt(v):
    if v is None:
        return "?"
    parts = []
    for b, e in zip(BASES, v):
        if e != 0:
            parts.append(b if e == 1 else "%s^%s" % (b, e))
    return " ".join(parts) if parts else "1"


class Lin:
    """linear expression over dimension variables: sum coef[v]*v + const (a vector of 4 rationals)"""
    __slots__ = ("coef", "const")

    def __init__(self, coef=None, const=ZERO):
        self.coef = {k: c for k, c in (coef or {}).items() if c != 0}
        self.const = tuple(const)

    def __add__(self, o):
        c = dict(self.coef)
        for k, v in o.coef.items():
            c[k] = c.get(k, 0) + v
        return Lin(c, tuple(a + b for a, b in zip(self.const, o.const)))

    def __sub__(self, o):
        return self + o.scale(-1)

    def scale(self, q):
        q = Fr(q)
        return Lin({k: v * q for k, v in self.coef.items()}, tuple(a * q for a in self.const))

    def known(self):
        return not self.coef


DIMLESS = Lin()


def K(v):
    return Lin({}, v)


class Solver:
    def __init__(self):
        self.n = 0
        self.sol = {}
        self.names = {}
        self.conflicts = []
        self.nconstraints = 0

    def fresh(self, name=""):
        self.n += 1
        self.names[self.n] = name
        return Lin({self.n: Fr(1)})

    def resolve(self, e):
        out = Lin({}, e.const)
        for v, c in e.coef.items():
            if v in self.sol:
                r = self.resolve(self.sol[v])
                self.sol[v] = r
                out = out + r.scale(c)
            else:
                out = out + Lin({v: c})
        return out

    def value(self, e):
        r = self.resolve(e)
        return r.const if r.known() else None

    def equate(self, a, b, site, what):
        """add the constraint a == b; False (and a recorded conflict) if it contradicts the system"""
        self.nconstraints += 1
        r = self.resolve(a - b)
        if not r.coef:
            if any(x != 0 for x in r.const):
                self.conflicts.append(dict(site=site, what=what, lhs=self.value(a), rhs=self.value(b)))
                return False
            return True
        v = max(r.coef)               # eliminate the youngest variable: long-lived ones (fields, globals) stay as parameters
        c = r.coef[v]
        rest = Lin({k: x for k, x in r.coef.items() if k != v}, r.const)
        self.sol[v] = rest.scale(Fr(-1) / c)
        return True


class RV:
    """abstract Ruler object: dimension of its values and of each named scale (union-find)"""
    def __init__(self, an, name=""):
        self.parent = None
        self.val = an.S.fresh("ruler values " + name)
        self.scales = {}
        self.name = name

    def find(self):
        r = self
        while r.parent is not None:
            r = r.parent
        return r


ARITH = {"float", "double", "long double", "int", "unsigned int", "long", "unsigned long", "long long", "unsigned long long", "short",
         "unsigned short", "char", "signed char", "unsigned char", "bool", "size_t", "__int128", "unsigned __int128"}
WRAPPERS = ("std::complex<", "std::vector<", "std::array<", "boost::multi_array<", "boost::detail::multi_array::sub_array<",
            "boost::detail::multi_array::const_sub_array<", "boost::detail::multi_array::multi_array_view<",
            "boost::detail::multi_array::const_multi_array_view<", "boost::multi_array_ref<", "boost::const_multi_array_ref<",
            "std::initializer_list<", "std::unique_ptr<", "std::shared_ptr<", "std::queue<", "std::deque<", "std::list<",
            "__gnu_cxx::__normal_iterator<", "std::allocator<")


def _first_targ(t):
    i = t.index("<")
    depth, j = 0, i
    for j in range(i, len(t)):
        if t[j] == "<":
            depth += 1
        elif t[j] == ">":
            depth -= 1
            if depth == 0:
                break
        elif t[j] == "," and depth == 1:
            break
    return t[i + 1:j].strip()


def kind_of(ctype):
    """'num' | 'ruler' | 'map' | 'str' | None"""
    t = (ctype or "").strip()
    if not t or t.startswith("<"):
        return None
    t = re.sub(r"\b(const|volatile)\b", "", t).replace("&", "").strip()
    while t.endswith("*") or t.endswith("]"):
        t = t[:-1].strip() if t.endswith("*") else t[:t.rindex("[")].strip()
    t = t.strip()
    if "Ruler<" in t:
        return "ruler"
    if t.startswith("std::map<std::basic_string<char>") or t.startswith("std::map<std::string"):
        return "map"
    if t.startswith("std::basic_string<char") or t == "std::string" or t == "char":
        return "str" if t != "char" else None
    if t in ARITH:
        return "num"
    for w in WRAPPERS:
        if t.startswith(w):
            return kind_of(_first_targ(t))
    if t.startswith("float[") or t.startswith("double["):
        return "num"
    if t in ("fftwf_complex", "fftw_complex"):
        return "num"
    return None


TRANSCENDENTAL = {"sin", "cos", "tan", "asin", "acos", "atan", "exp", "log", "log10", "log2", "sinh", "cosh", "tanh", "erf", "erfc",
                  "airy_ai", "airy_bi", "airy_ai_prime", "airy_bi_prime", "expm1", "log1p", "tgamma", "lgamma"}
SAME = {"abs", "fabs", "floor", "ceil", "round", "trunc", "lround", "llround", "rint", "nearbyint", "min", "max", "fmin", "fmax", "fmod",
        "real", "imag", "conj", "copysign", "move", "forward", "clamp", "exchange", "fdim", "remainder"}
NODIM = {"fpclassify", "isnan", "isinf", "isfinite", "isnormal", "signbit", "sign", "arg", "two_pi", "pi", "half_pi", "e", "root_two",
         "size", "empty", "distance", "count", "stoi", "stof", "stod", "atoi", "atof", "rand", "time", "ilogb"}
POLY = {"numeric_limits", "upper_power_of_two"}


class Analysis:
    MAX_DEPTH = 8
    MAX_BODIES = 6000

    def __init__(self, prog, pins=()):
        self.prog = prog
        self.S = Solver()
        self.env = {}            # storage key -> Lin | RV
        self.strs = {}           # storage key -> str constant
        self.sinks = []          # dict(site, what, ok, got, want, fn, chain)
        self.bodies = 0
        self.truncated = 0
        self.unit_problems = []
        self.visited_fn = set()
        self.stack = []
        self.ruler_model = self._ruler_model()
        self.ds_paths = {}
        self.lambdas = {}
        self.stats = {"calls_cloned": 0}
        self._seed(pins)

    # ------------------------------------------------------------------------------------------------------------------
    def _ruler_model(self):
        """what each accessor of vfps::Ruler returns, read off its body: 'val' (a value of the ruler), 'scale' (a named scale),
        'none' (dimensionless / not a quantity), 'scales' (the map)"""
        valf = {"_data", "_min", "_max", "_delta"}
        model = {}
        for f in self.prog.functions.values():
            if not (f.get("class") or "").startswith("vfps::Ruler") or f.get("kind") in ("ctor", "dtor") or not f.get("body"):
                continue
            rets = [y for y in A.walk(f["body"]) if y["k"] == "ReturnStmt" and y.get("c")]
            if not rets:
                continue
            names = {y["member"]["name"] for r in rets for y in A.walk(r) if y["k"] == "MemberExpr" and y["member"].get("dkind") == "Field"}
            calls = {(y.get("callee") or "").split("::")[-1] for r in rets for y in A.walk(r) if y["k"] in ("CXXMemberCallExpr", "CXXOperatorCallExpr")}
            if names and names <= valf:
                model[(f["name"], len(f["params"]))] = "val"
            elif names == {"_scale"}:
                model[(f["name"], len(f["params"]))] = "scale" if f["params"] else "scales"
            elif "at" in calls and not names:
                model[(f["name"], len(f["params"]))] = "val"
            elif names and not (names & valf) and "_scale" not in names:
                model[(f["name"], len(f["params"]))] = "none"
            elif f["name"].startswith("operator=="):
                model[(f["name"], len(f["params"]))] = "none"
        return model

    def _seed(self, pins):
        from . import options as O
        S = self.S
        for name, v in PHYSCONS.items():
            q = "vfps::physcons::" + name
            if q in self.prog.globals:
                self._set_known(("G", q), v, "physcons table")
        try:
            t = O.Table(self.prog)
        except AnalysisBroken:
            t = None
        self.option_units = {}
        if t is not None:
            explicit, implicit = [], []
            for o in t.options:
                if o.field is None:
                    continue
                first = (o.descr or "").split("\n")[0]
                m = re.search(r"\s\(([^()]*)\)", first)
                unit = m.group(1).strip() if m else None
                if unit is not None and unit not in HELP_UNIT:
                    if re.fullmatch(r"[A-Za-z/0-9]{1,5}", unit or "") and unit not in ("ignore", "ignored"):
                        self.unit_problems.append("option %s: unit '%s' in its help text is not modelled" % (o.name, unit))
                    unit = None
                (explicit if unit else implicit).append((o, unit))
            rec = self.prog.records.get("vfps::ProgramOptions", {})
            fty = {f["name"]: f["ctype"] for f in rec.get("fields", [])}
            for o, unit in explicit + implicit:
                key = ("F", "vfps::ProgramOptions::" + o.field)
                if kind_of(fty.get(o.field)) != "num":
                    continue
                if unit is None:
                    # no unit in the help text: a pure number -- unless another name of the same field (an alias) states one
                    if key in self.env:
                        continue
                    self.option_units.setdefault(o.field, (o.name, "(none: pure number)"))
                    self._set_known(key, ZERO, "option %s has no unit in its help text: pure number" % o.name)
                    continue
                self.option_units[o.field] = (o.name, unit)
                if key in self.env:
                    S.equate(self.env[key], K(HELP_UNIT[unit]), "src/IO/ProgramOptions.cpp:%d" % o.line, "options bound to %s agree on its unit" % o.field)
                else:
                    self._set_known(key, HELP_UNIT[unit], "help text of option %s" % o.name)
        for key, v, why in pins:
            self._set_known(key, v, why)

    def _set_known(self, key, v, why):
        x = self.var(key, "num")
        self.S.equate(x, K(v), why, why)

    # ------------------------------------------------------------------------------------------------------------------
    def var(self, key, kind, name=""):
        if key not in self.env:
            self.env[key] = RV(self, name or str(key[-1])) if kind == "ruler" else self.S.fresh(name or str(key[-1]))
        return self.env[key]

    def site(self, n):
        fn = self.stack[-1][0] if self.stack else None
        if fn is None:
            return "?"
        return "%s:%d" % (os.path.relpath(fn["file"], REPO), n.get("line", fn["line"]) if isinstance(n, dict) else fn["line"])

    def chain(self):
        return " <- ".join("%s@%s" % (f["qname"].replace("vfps::", ""), cs) for f, _, cs in reversed(self.stack) if cs and not isinstance(cs, tuple)) or ""

    def eq(self, a, b, n, what):
        if a is None or b is None:
            return True
        if isinstance(a, RV) or isinstance(b, RV):
            if isinstance(a, RV) and isinstance(b, RV):
                return self.unify_rulers(a, b, n, what)
            return True
        if not isinstance(a, Lin) or not isinstance(b, Lin):
            return True
        fn = self.stack[-1][0] if self.stack else None
        nb = len(self.S.conflicts)
        ok = self.S.equate(a, b, self.site(n), what)
        if not ok:
            c = self.S.conflicts[-1]
            c["fn"] = fn["qname"] if fn else "?"
            c["chain"] = self.chain()
            c["text"] = A.show(n)[:120] if isinstance(n, dict) and "k" in n else ""
            c["names"] = sorted({y["name"] for y in A.walk(n) if y.get("k") == "DeclRefExpr" and y.get("dkind") in ("Var", "ParmVar")}) if isinstance(n, dict) and "k" in n else []
            c["classes"] = [f_["qname"] for f_, _, _ in self.stack]
        return ok

    def unify_rulers(self, a, b, n, what):
        a, b = a.find(), b.find()
        if a is b:
            return True
        b.parent = a
        ok = self.eq(a.val, b.val, n, what + " (ruler values)")
        for u, d in b.scales.items():
            if u in a.scales:
                ok = self.eq(a.scales[u], d, n, what + " (scale %s)" % u) and ok
            else:
                a.scales[u] = d
        return ok

    def sink(self, n, what, got, want_vec, kind):
        """a requirement with a known right-hand side"""
        fn = self.stack[-1][0] if self.stack else None
        before = self.S.value(got) if isinstance(got, Lin) else None
        ok = self.eq(got, K(want_vec), n, what) if isinstance(got, Lin) else True
        self.sinks.append(dict(site=self.site(n), what=what, ok=ok, got=before, want=want_vec, fn=fn["qname"] if fn else "?", chain=self.chain(),
                               kind=kind, determined=before is not None, classes=[f_["qname"] for f_, _, _ in self.stack]))
        return ok

    # ------------------------------------------------------------------------------------------------------------------
    def key_of_decl(self, n, frame):
        """storage key of a DeclRefExpr"""
        if n.get("dkind") in ("Var", "ParmVar") and n.get("local", True) and not n.get("static_member"):
            return ("L", frame, n["decl"])
        if n.get("dkind") == "Var":
            return ("G", n["qname"])
        return None

    def field_key(self, member):
        q = member["qname"]
        out, depth = [], 0
        for ch in q:
            if ch == "<":
                depth += 1
            elif ch == ">":
                depth -= 1
            elif depth == 0:
                out.append(ch)
        return ("F", "".join(out))

    def const_exponent(self, n):
        n = A.strip(n)
        try:
            from .algebra import Translator
            v = Translator().conv(n)
            if v.is_number:
                return Fr(int(v.p), int(v.q)) if v.is_Rational else Fr(float(v)).limit_denominator(1000)
        except Exception:
            pass
        return None

    def string_of(self, n, frame):
        n0 = A.strip(n)
        if n0.get("k") == "StringLiteral":
            return n0.get("value")
        if n0.get("k") in ("CXXConstructExpr", "CXXTemporaryObjectExpr") and n0.get("args"):
            return self.string_of(n0["args"][0], frame)
        if n0.get("k") == "DeclRefExpr":
            return self.strs.get(self.key_of_decl(n0, frame))
        return None

    # ------------------------------------------------------------------------------------------------------------------
    def ev(self, n, frame):
        """abstract value of an expression (Lin | RV | dict (scale map) | None); adds the constraints of its sub-expressions"""
        if not isinstance(n, dict):
            return None
        k = n["k"]
        if k in A.TRANSPARENT or k in A.EXPLICIT_CASTS:
            ch = n.get("c") or []
            return self.ev(ch[0], frame) if len(ch) == 1 else None
        kind = kind_of(n.get("ctype"))
        if k in ("IntegerLiteral", "FloatingLiteral"):
            return self.S.fresh("literal 0") if n.get("value") == 0 else DIMLESS
        if k in ("CXXBoolLiteralExpr", "CharacterLiteral"):
            return DIMLESS
        if k in ("StringLiteral", "CXXNullPtrLiteralExpr", "CXXThisExpr", "CXXTypeidExpr", "PredefinedExpr", "ImplicitValueInitExpr"):
            return self.S.fresh("value-init") if k == "ImplicitValueInitExpr" and kind == "num" else None
        if k == "UnaryExprOrTypeTraitExpr":
            return DIMLESS
        if k == "DeclRefExpr":
            if n.get("dkind") == "EnumConstant":
                return DIMLESS
            key = self.key_of_decl(n, frame)
            if key is None or kind not in ("num", "ruler"):
                return None
            if key[0] == "L" and self.stack and n["decl"] in self.rescaled_in_place(self.stack[-1][0]):
                return self.S.fresh("rescaled in place") if kind == "num" else None
            if key[0] == "G":
                self.global_init(n["qname"])
            return self.var(key, kind, n["name"])
        if k == "MemberExpr":
            mem = n["member"]
            base = n["c"][0] if n.get("c") else None
            if mem.get("dkind") != "Field":
                return None
            if kind not in ("num", "ruler"):
                if base is not None:
                    self.ev(base, frame) if A.strip(base).get("k") not in ("CXXThisExpr", "DeclRefExpr") else None
                return None
            return self.var(self.field_key(mem), kind, mem["name"])
        if k == "ArraySubscriptExpr":
            b = self.ev(n["c"][0], frame)
            self.index(n["c"][1], frame)
            return b
        if k == "UnaryOperator":
            v = self.ev(n["c"][0], frame)
            op = n["op"]
            if op in ("-", "+", "*", "&", "++", "--", "~"):
                if op in ("++", "--") and isinstance(v, Lin):
                    pass
                return v
            if op == "!":
                return DIMLESS
            return v
        if k in ("BinaryOperator", "CompoundAssignOperator"):
            return self.binop(n, n["op"], n["c"][0], n["c"][1], frame)
        if k == "ConditionalOperator":
            self.ev(n.get("cond"), frame)
            a, b = self.evp(n.get("then"), frame), self.evp(n.get("else"), frame)
            if isinstance(a, RV) and isinstance(b, RV):
                return self.either_ruler(a, b, n)
            self.eq(a, b, n, "both branches of ?: have one dimension")
            return a if a is not None else b
        if k == "InitListExpr":
            items = n.get("inits") or n.get("c") or []
            vals = [self.ev(x, frame) for x in items]
            if kind in ("num", "ruler"):
                vals = [v for v in vals if v is not None]
                for v in vals[1:]:
                    self.eq(vals[0], v, n, "elements of one array have one dimension")
                return vals[0] if vals else (self.S.fresh("empty list") if kind == "num" else None)
            return None
        if k == "CXXStdInitializerListExpr":
            return self.ev(n["c"][0], frame) if n.get("c") else None
        if k == "CXXNewExpr":
            if n.get("is_array"):
                for x in (n.get("array_size"),):
                    if isinstance(x, dict):
                        self.index(x, frame)
                return self.S.fresh("new[]") if kind == "num" else None
            return self.ev(n.get("init"), frame) if isinstance(n.get("init"), dict) else (self.S.fresh("new") if kind == "num" else None)
        if k in ("CXXConstructExpr", "CXXTemporaryObjectExpr"):
            return self.construct(n, frame, kind)
        if k in ("CallExpr", "CXXMemberCallExpr", "CXXOperatorCallExpr"):
            return self.call(n, frame, kind)
        if k == "CXXDeleteExpr" or k == "CXXThrowExpr":
            for c in A.children(n):
                self.ev(c, frame)
            return None
        if k == "LambdaExpr":
            return None
        # anything else: visit children for their constraints
        for c in A.children(n):
            self.ev(c, frame)
        return self.S.fresh(k) if kind == "num" else None

    def evp(self, n, frame):
        """like ev, but a bare literal (possibly signed / cast) fits every dimension: used where a literal stands for a quantity
        (initial value, argument, sentinel, branch of ?:, operand of a comparison or of min/max), not for a pure factor"""
        x = A.strip(n) if isinstance(n, dict) else None
        while isinstance(x, dict) and x.get("k") == "UnaryOperator" and x.get("op") in ("-", "+"):
            x = A.strip(x["c"][0])
        if isinstance(x, dict) and x.get("k") in ("IntegerLiteral", "FloatingLiteral"):
            return self.S.fresh("literal")
        if isinstance(x, dict) and x.get("k") in ("CXXConstructExpr", "CXXTemporaryObjectExpr", "InitListExpr") and kind_of(x.get("ctype")) == "num" and \
                not any(w_ in (x.get("ctype") or "") for w_ in ("std::vector<", "std::deque<", "boost::multi_array<", "std::queue<", "std::list<")):
            items = x.get("args") or x.get("inits") or []
            items = [i_ for i_ in items if A.strip(i_, casts=False).get("k") != "CXXDefaultArgExpr"]
            if len(items) == 1 and items[0] is not n:
                return self.evp(items[0], frame)

            def lit(y):
                y = A.strip(y)
                while y.get("k") == "UnaryOperator" and y.get("op") in ("-", "+"):
                    y = A.strip(y["c"][0])
                return y.get("k") in ("IntegerLiteral", "FloatingLiteral")
            if items and all(lit(i_) for i_ in items):
                return self.S.fresh("literal aggregate")      # e.g. std::complex<float>(306.3, 176.9) naming a constant
        return self.ev(n, frame)

    def either_ruler(self, a, b, n):
        """either of two rulers: what both guarantee is the dimension of value*scale per unit (one may be normalised with a dimensioned
        scale, the other in physical units with scale 1)"""
        a, b = a.find(), b.find()
        if a is b:
            return a
        c = RV(self, "either ruler")
        for u in set(a.scales) | set(b.scales):
            c.scales[u] = self.S.fresh("scale %s" % u)
            for r_ in (a, b):
                if u in r_.scales:
                    self.eq(c.val + c.scales[u], r_.val + r_.scales[u], n, "value times scale \"%s\" has one dimension in both rulers" % u)
        return c

    def index(self, n, frame):
        v = self.ev(n, frame)
        if isinstance(v, Lin):
            self.eq(v, DIMLESS, n, "a subscript / count is a pure number")

    def binop(self, n, op, l, r, frame):
        if op in ("<", ">", "<=", ">=", "==", "!=", "="):
            a, b = self.evp(l, frame), self.evp(r, frame)
        else:
            a, b = self.ev(l, frame), self.ev(r, frame)
        la, lb = isinstance(a, Lin), isinstance(b, Lin)

        def is_ptr(x):
            t = (A.strip(x, casts=False).get("ctype") or x.get("ctype") or "")
            return bool(re.search(r"\*\s*(const|volatile|__restrict)?\s*$", t)) or "iterator" in t or t.rstrip().endswith("]")
        if op in ("+", "-", "+=", "-=") and (is_ptr(l) != is_ptr(r)):
            # pointer / iterator arithmetic: the offset is a pure number, the result addresses the same elements
            p_, i_ = (a, b) if is_ptr(l) else (b, a)
            if isinstance(i_, Lin):
                self.eq(i_, DIMLESS, n, "a pointer offset is a pure number")
            return p_
        if op == "-" and is_ptr(l) and is_ptr(r):
            return DIMLESS
        if op in ("*=", "/=") and la and lb:
            d_ = A.declref(l)
            if d_ is not None and d_.get("dkind") == "Var" and d_.get("local", True) and A.strip(l).get("k") == "DeclRefExpr":
                # a scalar local that accumulates factors: from here on (program order) it carries the product's dimension
                fv = self.S.value(b)
                if fv is None or any(x_ != 0 for x_ in fv):
                    key_ = self.key_of_decl(d_, frame)
                    self.env[key_] = (a + b) if op == "*=" else (a - b)
                    return self.env[key_]
                return a
        if op in ("*",):
            return (a + b) if la and lb else (a if la and b is None else None)
        if op == "/":
            return (a - b) if la and lb else None
        if op in ("+", "-"):
            if la and lb:
                self.eq(a, b, n, "operands of %s have one dimension" % op)
                return a
            return a if la else (b if lb else None)
        if op in ("<", ">", "<=", ">=", "==", "!="):
            if la and lb:
                self.eq(a, b, n, "operands of %s have one dimension" % op)
            return DIMLESS
        if op in ("&&", "||"):
            return DIMLESS
        if op == "=":
            self.assign(l, a, b, n, frame)
            return a
        if op in ("+=", "-="):
            if la and lb:
                self.eq(a, b, n, "operands of %s have one dimension" % op)
            return a
        if op in ("*=", "/="):
            if la and lb:
                self.eq(b, DIMLESS, n, "the factor of %s is a pure number (the variable keeps its dimension)" % op)
            return a
        if op in ("%", "%=", "<<", ">>", "&", "|", "^", "<<=", ">>=", "&=", "|=", "^="):
            return a if la else None
        if op == ",":
            return b
        return None

    def assign(self, lnode, a, b, n, frame):
        dl = A.declref(lnode)
        if isinstance(b, RV) and dl is not None and dl.get("dkind") == "Var" and dl.get("local", True) and A.strip(lnode).get("k") == "DeclRefExpr":
            # a local that is pointed at one ruler or another (if/else chains): it stands for either of them
            key = self.key_of_decl(dl, frame)
            cur = self.env.get(key)
            if isinstance(cur, RV) and not cur.find().scales and cur.find() is not b.find() and getattr(cur.find(), "untouched", True) and key not in getattr(self, "_ruler_assigned", set()):
                self.env[key] = b
            elif isinstance(cur, RV):
                self.env[key] = self.either_ruler(cur, b, n)
            else:
                self.env[key] = b
            self.__dict__.setdefault("_ruler_assigned", set()).add(key)
            return
        if isinstance(a, (Lin, RV)) and isinstance(b, (Lin, RV)):
            self.eq(a, b, n, "assignment keeps the dimension")
        d = A.declref(lnode)
        if d is not None:
            s = self.string_of(n["c"][1] if n.get("c") else None, frame) if n.get("c") else None
            if s is not None:
                self.strs[self.key_of_decl(d, frame)] = s

    # ------------------------------------------------------------------------------------------------------------------
    def scale_map(self, n, frame):
        """{unit: Lin} of a std::map<std::string, T> expression built from an initializer list of {"Unit", value} pairs"""
        out = {}
        n0 = A.strip(n, casts=False)
        if n0.get("k") == "CXXDefaultArgExpr":
            return out
        found = False
        for x in A.walk(n):
            items = None
            if x.get("k") == "InitListExpr":
                items = x.get("inits") or x.get("c") or []
            elif x.get("k") in ("CXXConstructExpr", "CXXTemporaryObjectExpr") and "std::pair<" in (x.get("ctype") or "") and len(x.get("args", [])) == 2:
                items = x["args"]
            if items and len(items) == 2:
                s = self.string_of(items[0], frame)
                if s is not None and kind_of(A.strip(items[1]).get("ctype") or items[1].get("ctype")) == "num":
                    v = self.ev(items[1], frame)
                    if isinstance(v, Lin):
                        out[s] = v
                        found = True
        if not found:
            d = A.declref(n)
            if d is not None:
                return self.env.get(("M",) + (self.key_of_decl(d, frame) or ()), {})
        return out

    def make_ruler(self, n, args, frame):
        """Ruler(steps, min, max, scale)"""
        rv = RV(self, "ruler@%s" % self.site(n))
        if len(args) >= 3:
            self.index(args[0], frame)
            lo, hi = self.ev(args[1], frame), self.ev(args[2], frame)
            for v in (lo, hi):
                if isinstance(v, Lin):
                    self.eq(rv.val, v, n, "min/max of a ruler have the dimension of its values")
        if len(args) >= 4:
            for u, d in self.scale_map(args[3], frame).items():
                rv.scales[u] = d
                if u in UNIT_DIM:
                    self.sink(n, "ruler scale \"%s\" times the dimension of the ruler's values is %s" % (u, fmt(UNIT_DIM[u])), d + rv.val, UNIT_DIM[u], "ruler-scale")
                else:
                    self.unit_problems.append("%s: scale name '%s' is not a modelled unit" % (self.site(n), u))
        return rv

    def construct(self, n, frame, kind):
        args = n.get("args", [])
        cls = n.get("callee_class") or ""
        if cls == "vfps::Ruler" or cls.startswith("vfps::Ruler<"):
            if len(args) == 1:
                return self.ev(args[0], frame)
            return self.make_ruler(n, args, frame)
        if n.get("callee_in_root") and self.prog.functions.get(n.get("callee_sig")) is not None:
            if cls != "vfps::ProgramOptions":
                self.call_repo(n, self.prog.functions[n["callee_sig"]], args, frame)
            return None
        # library types
        if kind == "ruler":
            vals = [self.ev(a, frame) for a in args]
            rs = [v for v in vals if isinstance(v, RV)]
            return rs[0] if rs else None
        if kind == "num":
            ct = n.get("ctype") or ""
            vals = [self.ev(a, frame) for a in args]
            if "std::complex<" in ct and len(args) == 2 and "std::vector" not in ct:
                if isinstance(vals[0], Lin) and isinstance(vals[1], Lin):
                    self.eq(vals[0], vals[1], n, "real and imaginary part have one dimension")
                return vals[0] if isinstance(vals[0], Lin) else self.S.fresh("complex")
            real_args = [a for a in args if A.strip(a, casts=False).get("k") != "CXXDefaultArgExpr"]
            if len(real_args) == 1 and ("std::vector<" in ct or "std::deque<" in ct or "boost::multi_array<" in ct):
                a0t = re.sub(r"\b(const|volatile)\b|&", "", A.strip(args[0]).get("ctype") or "").strip()
                if a0t in ARITH:
                    if isinstance(vals[0], Lin):
                        self.eq(vals[0], DIMLESS, n, "an element count is a pure number")
                    return self.S.fresh("elements")          # container(n): n elements, not an element
                return vals[0] if isinstance(vals[0], Lin) else self.S.fresh("construct")
            if len(real_args) == 1:
                return vals[0] if isinstance(vals[0], Lin) else self.S.fresh("construct")
            if len(args) >= 2 and ("std::vector<" in ct or "std::deque<" in ct):
                a0 = A.strip(args[0])
                if kind_of(a0.get("ctype")) == "num" and isinstance(vals[1], Lin) and "initializer_list" not in (a0.get("ctype") or "") and \
                        "iterator" not in (a0.get("ctype") or "") and "*" not in (a0.get("ctype") or ""):
                    self.eq(vals[0], DIMLESS, n, "an element count is a pure number")
                    return vals[1]
                if isinstance(vals[0], Lin) and isinstance(vals[1], Lin) and ("iterator" in (a0.get("ctype") or "") or "*" in (a0.get("ctype") or "")):
                    self.eq(vals[0], vals[1], n, "a range has one dimension")
                    return vals[0]
                return vals[0] if isinstance(vals[0], Lin) else self.S.fresh("container")
            return self.S.fresh("construct")
        for a in args:
            self.ev(a, frame)
        return None

    # ------------------------------------------------------------------------------------------------------------------
    def call(self, n, frame, kind):
        k = n["k"]
        callee = n.get("callee") or ""
        short = callee.split("::")[-1]
        args = n.get("args", [])
        cls = n.get("callee_class") or ""
        obj = A.call_object(n) if k == "CXXMemberCallExpr" else None
        # --- Ruler interface --------------------------------------------------------------------------------------
        if cls.startswith("vfps::Ruler") and k in ("CXXMemberCallExpr", "CXXOperatorCallExpr"):
            recv = self.ev(obj if obj is not None else args[0], frame)
            rest = args if obj is not None else args[1:]
            m = self.ruler_model.get((short, len(rest)))
            if m is None:
                raise AnalysisBroken("dims: Ruler::%s is not in the accessor model" % short)
            for a in rest:
                if m != "scale":
                    self.index(a, frame)
            if not isinstance(recv, RV):
                return self.S.fresh("ruler?") if kind == "num" else None
            recv = recv.find()
            if m == "val":
                return recv.val
            if m == "scale":
                u = self.string_of(rest[0], frame) if rest else None
                if u is None:
                    return self.S.fresh("scale(?)")
                if u not in recv.scales:
                    recv.scales[u] = self.S.fresh("scale %s" % u)
                return recv.scales[u]
            if m == "none":
                return DIMLESS
            return None
        # --- FFT plans (library model): a DFT is linear, its output carries the dimension of its input ------------------------
        if short == "prepareFFT" and len(args) >= 3:
            self.index(args[0], frame)
            vi, vo = self.ev(args[1], frame), self.ev(args[2], frame)
            if isinstance(vi, Lin) and isinstance(vo, Lin):
                self.eq(vi, vo, n, "the output of a Fourier transform carries the dimension of its input")
            return None
        # --- repo functions -----------------------------------------------------------------------------------------
        fn = self.prog.functions.get(n.get("callee_sig")) if n.get("callee_in_root") else None
        if fn is not None and (fn.get("body") or fn.get("inits")) and not callee.startswith("vfps::fft::") and not callee.startswith("fft::") and \
                not (fn.get("class") == "vfps::ProgramOptions" and fn.get("kind") == "ctor"):
            if obj is not None:
                self.ev(obj, frame)
            if k == "CXXOperatorCallExpr" and fn.get("class"):
                self.ev(args[0], frame)
                return self.call_repo(n, fn, args[1:], frame)
            return self.call_repo(n, fn, args, frame)
        # --- operators of library types -------------------------------------------------------------------------------
        if k == "CXXOperatorCallExpr":
            op = n.get("op")
            if op == "[]":
                b = self.ev(args[0], frame)
                if len(args) > 1:
                    self.index(args[1], frame)
                return b
            if op in ("*", "->") and len(args) == 1:
                return self.ev(args[0], frame)
            if op == "()":
                d_ = A.declref(args[0]) if args else None
                lam = self.lambdas.get(self.key_of_decl(d_, frame)) if d_ is not None else None
                if lam is not None and len(self.stack) < self.MAX_DEPTH and not any(cs == ("lambda", lam["id"]) for _, _, cs in self.stack):
                    # a local lambda is expanded at the call: parameters are bound per call, captured names are the enclosing frame's
                    for p_, a_ in zip(lam.get("params", []), args[1:]):
                        pk = kind_of(p_["ctype"])
                        pkey = ("L", frame, p_["decl"])
                        v_ = self.evp(a_, frame)
                        self.env.pop(pkey, None)
                        self.strs.pop(pkey, None)
                        if pk in ("num", "ruler") and isinstance(v_, (Lin, RV)):
                            self.env[pkey] = v_
                        elif pk == "str" or "char" in (p_["ctype"] or ""):
                            sv = self.string_of(a_, frame)
                            if sv is not None:
                                self.strs[pkey] = sv
                        elif "DatasetInfo" in (p_["ctype"] or ""):
                            dsn = self.dataset_of(a_, frame, holder=True)
                            if dsn:
                                self.strs[pkey] = dsn
                        elif "H5::DataSet" in (p_["ctype"] or ""):
                            dsn = self.dataset_of(a_, frame)
                            if dsn:
                                self.strs[pkey] = "ds:" + dsn
                    self.env.pop(("R", frame + (("lambda", lam["id"]),)), None)
                    fn0 = self.stack[-1][0]
                    self.stack.append((fn0, frame, ("lambda", lam["id"])))
                    try:
                        self.lambda_ret = ("R", frame + (("lambda", lam["id"]),))
                        self.stmt(lam.get("body"), frame, {"name": "lambda", "qname": fn0["qname"], "file": fn0["file"], "line": lam["line"], "sig": "lambda"})
                    finally:
                        self.stack.pop()
                        self.lambda_ret = None
                    return self.env.get(("R", frame + (("lambda", lam["id"]),)))
                for a in args:
                    self.ev(a, frame)
                return self.S.fresh("functor") if kind == "num" else None
            if op in ("<<", ">>"):
                for a in args:
                    self.ev(a, frame)
                return None
            if len(args) == 2:
                return self.binop(n, op, args[0], args[1], frame)
            if len(args) == 1:
                return self.ev(args[0], frame)
            return None
        # --- library member functions -----------------------------------------------------------------------------------
        if k == "CXXMemberCallExpr":
            recv = self.ev(obj, frame) if obj is not None else None
            vals = [self.evp(a, frame) for a in args]
            if short in ("data", "begin", "end", "cbegin", "cend", "rbegin", "rend", "front", "back", "get", "origin", "top", "real", "imag"):
                return recv
            if short in ("at",) and kind in ("num", "ruler"):
                return recv
            if short in ("size", "empty", "capacity", "count", "num_elements", "shape", "use_count", "max_size", "length"):
                return DIMLESS
            if short in ("push_back", "emplace_back", "push", "emplace", "push_front", "fill") and vals and isinstance(recv, (Lin, RV)) and isinstance(vals[-1], (Lin, RV)):
                self.eq(recv, vals[-1], n, "an element stored in a container has the container's dimension")
                return None
            if short in ("resize", "assign") and len(vals) == 2 and isinstance(recv, Lin) and isinstance(vals[1], Lin):
                self.eq(vals[0], DIMLESS, n, "an element count is a pure number") if isinstance(vals[0], Lin) else None
                self.eq(recv, vals[1], n, "an element stored in a container has the container's dimension")
                return None
            if short == "swap" and vals and isinstance(recv, Lin) and isinstance(vals[0], Lin):
                self.eq(recv, vals[0], n, "swapped containers have one dimension")
                return None
            if short == "write" and cls.startswith("H5::"):
                return self.h5_write(n, obj, args, vals, frame)
            return (recv if kind == "num" and isinstance(recv, Lin) and short in ("operator[]",) else (self.S.fresh(short) if kind == "num" else None))
        # --- free library functions ---------------------------------------------------------------------------------------
        vals = [(self.evp(a, frame) if short in SAME or short in ("accumulate", "fill", "fill_n", "make_shared", "make_unique") else self.ev(a, frame)) for a in args]
        lin = [v for v in vals if isinstance(v, Lin)]
        if short in TRANSCENDENTAL:
            for a, v in zip(args, vals):
                if isinstance(v, Lin):
                    self.sink(a, "the argument of %s() is a pure number" % short, v, ZERO, "transcendental")
            return DIMLESS
        if short == "sqrt" and lin:
            return lin[0].scale(Fr(1, 2))
        if short == "cbrt" and lin:
            return lin[0].scale(Fr(1, 3))
        if short == "pow" and len(args) == 2 and isinstance(vals[0], Lin):
            e = self.const_exponent(args[1])
            if e is not None:
                return vals[0].scale(e)
            self.eq(vals[0], DIMLESS, n, "a power with a run-time exponent has a dimensionless base")
            if isinstance(vals[1], Lin):
                self.eq(vals[1], DIMLESS, n, "an exponent is a pure number")
            return DIMLESS
        if short == "norm" and lin:
            return lin[0].scale(2)
        if short in ("hypot",) and len(lin) == 2:
            self.eq(lin[0], lin[1], n, "operands of hypot have one dimension")
            return lin[0]
        if short == "polar" and lin:
            return lin[0]
        if short in SAME:
            rvs = [v for v in vals if isinstance(v, RV)]
            if rvs:
                return rvs[0]
            for v in lin[1:]:
                self.eq(lin[0], v, n, "arguments of %s() have one dimension" % short)
            return lin[0] if lin else (self.S.fresh(short) if kind == "num" else None)
        if short in NODIM or callee.startswith("boost::math::constants::"):
            return DIMLESS
        if short == "accumulate" and len(args) >= 3:
            if isinstance(vals[0], Lin) and isinstance(vals[2], Lin) and len(args) == 3:
                self.eq(vals[0], vals[2], n, "the initial value of accumulate has the dimension of the elements")
            return vals[2] if isinstance(vals[2], Lin) else (vals[0] if isinstance(vals[0], Lin) else None)
        if short == "inner_product" and len(args) == 4:
            if all(isinstance(vals[i], Lin) for i in (0, 2, 3)):
                self.eq(vals[3], vals[0] + vals[2], n, "the initial value of inner_product has the dimension of the products")
                return vals[3]
            return self.S.fresh("inner_product")
        if short in ("copy_n", "copy", "move_backward", "copy_backward", "swap_ranges") and len(args) == 3:
            src, dst = vals[0], vals[2]
            if short == "copy_n" and isinstance(vals[1], Lin):
                self.eq(vals[1], DIMLESS, n, "an element count is a pure number")
            if isinstance(src, (Lin, RV)) and isinstance(dst, (Lin, RV)):
                self.eq(src, dst, n, "copied elements keep their dimension")
            return dst
        if short in ("fill_n",) and len(args) == 3:
            if isinstance(vals[0], Lin) and isinstance(vals[2], Lin):
                self.eq(vals[0], vals[2], n, "fill value has the dimension of the elements")
            return vals[0]
        if short in ("fill",) and len(args) == 3:
            if isinstance(vals[0], Lin) and isinstance(vals[2], Lin):
                self.eq(vals[0], vals[2], n, "fill value has the dimension of the elements")
            return None
        if short == "modf" and len(args) == 2:
            if isinstance(vals[0], Lin) and isinstance(vals[1], Lin):
                self.eq(vals[0], vals[1], n, "integral part keeps the dimension")
            return vals[0]
        if short in ("swap",) and len(lin) == 2:
            self.eq(lin[0], lin[1], n, "swapped values have one dimension")
            return None
        if short in ("make_shared", "make_unique", "allocate_shared"):
            ct = n.get("ctype") or ""
            if "Ruler<" in ct:
                if len(args) == 1 and isinstance(vals[0], RV):
                    return vals[0]
                return self.make_ruler(n, args, frame)
            # construction of a repo class through make_shared<T>(args...): bind to the constructor the arguments select
            m = re.search(r"(?:shared_ptr|unique_ptr)<(vfps::[A-Za-z0-9_:]+)", ct)
            if m:
                ctors = [f for f in self.prog.fns(m.group(1) + "::" + m.group(1).split("::")[-1]) if len(f["params"]) >= len(args) and
                         sum(1 for p in f["params"] if "default_text" not in p) <= len(args)]
                if len(ctors) == 1:
                    self.call_repo(n, ctors[0], args, frame, pre=vals)
            return None
        if short in POLY or "numeric_limits" in callee:
            return self.S.fresh(short) if kind == "num" else None
        if short in ("get",) and lin:
            return lin[0]
        return self.S.fresh(short) if kind == "num" else None

    # ------------------------------------------------------------------------------------------------------------------
    def h5_write(self, n, obj, args, vals, frame):
        """X.createAttribute("Unit", ...).write(type, &value)  /  <dataset member>.dataset.write(ptr, type)"""
        o = A.strip(obj) if obj is not None else None
        if o is not None and o.get("k") == "CXXMemberCallExpr" and (o.get("callee") or "").endswith("::createAttribute"):
            unit = self.string_of(o["args"][0], frame) if o.get("args") else None
            holder = A.call_object(o)
            ds = self.dataset_of(holder, frame)
            val = vals[1] if len(vals) > 1 else None
            if unit is None or not isinstance(val, Lin):
                return None
            if unit not in UNIT_DIM:
                self.unit_problems.append("%s: attribute name '%s' is not a modelled unit" % (self.site(n), unit))
                return None
            dd = self.var(("DS", ds), "num", "data of %s" % ds) if ds else self.S.fresh("data of ?")
            self.sink(n, "attribute \"%s\" of %s times the dimension of the stored numbers is %s" % (unit, ds or "(unnamed dataset)", fmt(UNIT_DIM[unit])),
                      val + dd, UNIT_DIM[unit], "h5-attribute")
            return None
        ds = self.dataset_of(obj, frame)
        if ds and vals and isinstance(vals[0], Lin):
            self.eq(self.var(("DS", ds), "num", "data of %s" % ds), vals[0], n, "numbers written to %s have one dimension" % ds)
        return None

    def dataset_of(self, n, frame, holder=False):
        """name of the dataset a receiver expression denotes: `<member>.dataset` -> member (also through a DatasetInfo parameter);
        `_file.openGroup("/path")` -> path.  holder=True: n is the DatasetInfo object itself"""
        if n is None:
            return None
        if holder:
            m = A.member_name(n)
            if m:
                return m
            d = A.declref(n)
            return self.strs.get(self.key_of_decl(d, frame)) if d is not None else None
        for x in A.walk(n):
            if x.get("k") == "MemberExpr" and x["member"]["name"] == "dataset" and x.get("c"):
                m = A.member_name(x["c"][0])
                if m:
                    return m
                d = A.declref(x["c"][0])
                if d is not None and self.strs.get(self.key_of_decl(d, frame)):
                    return self.strs[self.key_of_decl(d, frame)]
            if x.get("k") == "CXXMemberCallExpr" and (x.get("callee") or "").endswith("::openGroup") and x.get("args"):
                p = self.string_of(x["args"][0], frame)
                if p:
                    return "group:" + p
        d = A.declref(n)
        if d is not None:
            bound = self.strs.get(self.key_of_decl(d, frame))
            if bound and bound.startswith("ds:"):
                return bound[3:]
            return "local:" + d["name"]
        return None

    # ------------------------------------------------------------------------------------------------------------------
    def call_repo(self, n, fn, args, frame, pre=None):
        """bind arguments to a fresh copy of the callee's parameters and analyse its body in that frame"""
        vals = pre if pre is not None else [self.evp(a, frame) for a in args]
        params = fn["params"]
        tracked = any(kind_of(p["ctype"]) in ("num", "ruler", "str", "map") or "DatasetInfo" in (p["ctype"] or "") for p in params) or kind_of(fn.get("ret")) in ("num", "ruler") or kind_of(n.get("ctype")) in ("num", "ruler")
        rk = kind_of(n.get("ctype"))
        if not tracked and fn.get("kind") != "ctor":
            return self.S.fresh("ret") if rk == "num" else None
        if len(self.stack) >= self.MAX_DEPTH or self.bodies >= self.MAX_BODIES or any(f["sig"] == fn["sig"] for f, _, _ in self.stack):
            self.truncated += 1
            return self.S.fresh("ret") if rk == "num" else None
        self.stats["calls_cloned"] += 1
        nf = frame + ("%s#%s" % (fn["name"], n.get("id")),)
        unit_fn = self.prog.functions[fn["sig"]]
        for i, p in enumerate(params):
            if i >= len(args):
                break
            pk = kind_of(p["ctype"])
            key = ("L", nf, p["decl"])
            a = args[i]
            if A.strip(a, casts=False).get("k") == "CXXDefaultArgExpr":
                continue
            if pk in ("num", "ruler") and isinstance(vals[i], (Lin, RV)):
                if pk == "ruler" and isinstance(vals[i], RV):
                    self.env[key] = vals[i]
                elif pk == "num" and isinstance(vals[i], Lin):
                    self.env[key] = vals[i]
            elif pk == "str":
                s = self.string_of(a, frame)
                if s is not None:
                    self.strs[key] = s
            elif "DatasetInfo" in (p["ctype"] or ""):
                dsn = self.dataset_of(a, frame, holder=True)
                if dsn:
                    self.strs[key] = dsn
            elif pk == "map":
                self.env[("M",) + key] = self.scale_map(a, frame)
        self.analyse(unit_fn, nf, self.site(n))
        ret = self.env.get(("R", nf))
        if ret is None and rk == "num":
            return self.S.fresh("ret")
        return ret

    def rescaled_in_place(self, fn):
        """locals that an in-place std::transform rescales (x := x/total): such a variable has no single dimension and is not tracked"""
        if "_rescaled" not in fn:
            out = set()
            if fn.get("body"):
                for x in A.walk(fn["body"]):
                    if x.get("k") == "CallExpr" and x.get("callee") == "std::transform" and len(x.get("args", [])) >= 4:
                        def cont(a):
                            for y in A.walk(a):
                                if y.get("k") == "DeclRefExpr" and y.get("dkind") in ("Var", "ParmVar"):
                                    return y["decl"]
                            return None
                        a0, a2 = cont(x["args"][0]), cont(x["args"][2])
                        if a0 is not None and a0 == a2:
                            out.add(a0)

            fn["_rescaled"] = out
        return fn["_rescaled"]

    def analyse(self, fn, frame, callsite=None):
        self.bodies += 1
        self.visited_fn.add(fn["sig"])
        self.stack.append((fn, frame, callsite))
        try:
            cls = fn.get("class")
            for i in fn.get("inits", []):
                e = i.get("expr")
                if not isinstance(e, dict):
                    continue
                if i.get("ikind") == "member":
                    rec = self.prog.records.get(cls, {})
                    fty = {f["name"]: f["ctype"] for f in rec.get("fields", [])}.get(i["target"])
                    fk = kind_of(fty)
                    v = self.evp(e, frame)
                    if fk in ("num", "ruler") and isinstance(v, (Lin, RV)):
                        self.eq(self.var(("F", "%s::%s" % (cls, i["target"])), fk, i["target"]), v, {"line": i["line"]}, "member %s is initialised with its own dimension" % i["target"])
                else:
                    self.ev(e, frame)
            if fn.get("body"):
                self.stmt(fn["body"], frame, fn)
        finally:
            self.stack.pop()

    def global_init(self, q):
        g = self.prog.globals.get(q)
        if g is None or g.get("_dims_done") or not isinstance(g.get("init"), dict) or kind_of(g.get("ctype")) != "num":
            return
        g["_dims_done"] = True
        if not any(y.get("k") == "DeclRefExpr" for y in A.walk(g["init"])):
            return                  # a literal defines the constant in its unit
        fake = {"qname": q, "file": g["file"], "line": g["line"], "sig": "global " + q}
        self.stack.append((fake, ("global",), None))
        try:
            v = self.ev(g["init"], ("global", q))
            if isinstance(v, Lin):
                self.eq(self.var(("G", q), "num", q), v, {"line": g["line"]}, "%s is initialised with its own dimension" % q.split("::")[-1])
        finally:
            self.stack.pop()

    def stmt(self, s, frame, fn):
        if not isinstance(s, dict):
            return
        k = s["k"]
        if k == "DeclStmt":
            for d in s.get("decls", []):
                if d.get("k") != "VarDecl":
                    continue
                dk = kind_of(d.get("ctype"))
                key = ("L", frame, d["decl"])
                if isinstance(d.get("init"), dict):
                    lam = A.strip(d["init"], casts=False)
                    while lam.get("k") in ("CXXConstructExpr", "CXXTemporaryObjectExpr", "MaterializeTemporaryExpr", "ExprWithCleanups", "CXXBindTemporaryExpr") and \
                            len(lam.get("args") or lam.get("c") or []) == 1:
                        lam = A.strip((lam.get("args") or lam.get("c"))[0], casts=False)
                    if lam.get("k") == "LambdaExpr":
                        self.lambdas[key] = lam
                        continue
                    if dk == "map":
                        self.env[("M",) + key] = self.scale_map(d["init"], frame)
                        continue
                    v = self.evp(d["init"], frame)
                    if dk == "str":
                        sv = self.string_of(d["init"], frame)
                        if sv is not None:
                            self.strs[key] = sv
                    if dk in ("num", "ruler") and isinstance(v, (Lin, RV)):
                        if key in self.env:
                            self.eq(self.env[key], v, d, "initialiser of %s" % d["name"])
                        else:
                            self.env[key] = v
            return
        if k == "ReturnStmt":
            if s.get("c"):
                v = self.evp(s["c"][0], frame)
                if isinstance(v, (Lin, RV)):
                    rk = getattr(self, "lambda_ret", None) or ("R", frame)
                    if rk in self.env:
                        self.eq(self.env[rk], v, s, "all return statements of %s give one dimension" % fn["name"])
                    else:
                        self.env[rk] = v
            return
        if k == "CXXForRangeStmt":
            lv = s.get("loopvar")
            rng = self.ev(s.get("range"), frame) if isinstance(s.get("range"), dict) else None
            if isinstance(lv, dict) and kind_of(lv.get("ctype")) in ("num", "ruler") and isinstance(rng, (Lin, RV)):
                self.env[("L", frame, lv["decl"])] = rng
            self.stmt(s.get("body"), frame, fn)
            return
        if k in ("CompoundStmt", "IfStmt", "ForStmt", "WhileStmt", "DoStmt", "SwitchStmt", "CaseStmt", "DefaultStmt", "CXXTryStmt", "CXXCatchStmt",
                 "LabelStmt", "AttributedStmt"):
            for c in A.children(s):
                if c.get("k", "").endswith("Stmt"):
                    self.stmt(c, frame, fn)
                else:
                    self.ev(c, frame)
            return
        if k in ("BreakStmt", "ContinueStmt", "NullStmt", "GotoStmt"):
            return
        self.ev(s, frame)

    # ------------------------------------------------------------------------------------------------------------------
    def run(self, order="callers-first"):
        """order = 'callers-first': main and everything it calls (per call chain), then the remaining functions on their own;
        'callees-first': every function on its own first (what each class demands of its own fields), then main.
        The system is the same; what differs is which of two contradicting constraints is met second and therefore blamed."""
        mains = self.prog.by_qname.get("main", [])
        A.require(len(mains) == 1, "dims: main not found")
        self.order = order

        def alone(only_unvisited):
            for f in self.prog.functions.values():
                if not (f.get("body") or f.get("inits")) or f.get("qname") == "main":
                    continue
                if only_unvisited and f["sig"] in self.visited_fn:
                    continue
                if (f.get("class") or "").startswith("vfps::Ruler") or (f.get("qname") or "").startswith(("vfps::fft::", "fft::")):
                    continue
                if f.get("class") == "vfps::ProgramOptions" and f.get("kind") == "ctor":
                    continue            # default values of options are literals written in the option's unit
                self.analyse(f, ("alone", f["sig"]))
        if order == "callees-first":
            alone(False)
            self.analyse(mains[0], ("main",))
        else:
            self.analyse(mains[0], ("main",))
            alone(True)
        return self

    def determined(self):
        n = 0
        tot = 0
        for key, v in self.env.items():
            if isinstance(v, Lin):
                tot += 1
                if self.S.value(v) is not None:
                    n += 1
        return n, tot

    def dim_of_field(self, qname):
        v = self.env.get(("F", qname))
        return self.S.value(v) if isinstance(v, Lin) else None


def analysis_of(prog):
    """the two analyses of a loaded program (shared by all property checks of a process): same constraint system, two blame orders"""
    a = getattr(prog, "_dims", None)
    if a is None:
        for g in prog.globals.values():
            g.pop("_dims_done", None)
        a1 = Analysis(prog).run("callers-first")
        for g in prog.globals.values():
            g.pop("_dims_done", None)
        a2 = Analysis(prog).run("callees-first")
        a = (a1, a2)
        prog._dims = a
    return a
