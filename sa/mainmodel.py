"""Model of main(): the simulation objects it builds (variable -> dynamic classes, constructor
bindings of members to other main objects) and, for every call made on them, the read and write
sets over main-level locations (variable, field, selector), obtained from the E4 summaries."""
from . import ast as A
from . import effects as E
from . import flow as Fl
from .callargs import plain_var
from .compdb import AnalysisBroken


class Obj:
    def __init__(self, var):
        self.var = var
        self.alts = []       # (class, ctor fn or None, {ctor param -> main var or None}, node)

    def classes(self):
        return sorted({a[0] for a in self.alts})


class MainModel:
    def __init__(self, prog, fn=None):
        self.prog = prog
        self.fn = fn or prog.fn("main")
        self.eff = E.Effects(prog)
        self.idx = A.index(self.fn)
        self.objs = {}
        self.alias = {}      # var -> vars it may be assigned from
        self._collect_objects()
        self.cfg = Fl.CFG(self.fn)
        self._cache = {}

    # -- object collection ---------------------------------------------------------------------
    def _ctor_of(self, ce):
        return self.prog.functions.get(ce.get("callee_sig"))

    def _record(self, var, cls, ce, node):
        o = self.objs.setdefault(var, Obj(var))
        ctor = self._ctor_of(ce) if ce is not None else None
        args = {}
        if ce is not None:
            names = [p["name"] for p in ctor["params"]] if ctor else ce.get("callee_params", [])
            for pn, a_ in zip(names, ce.get("args", [])):
                pv = plain_var(a_)
                if pv is None:
                    s = A.strip(a_)
                    # &rdtn_field, *grid_t1
                    if s.get("k") == "UnaryOperator" and s.get("op") in ("&", "*"):
                        pv = plain_var(s["c"][0])
                    elif s.get("k") == "CXXOperatorCallExpr" and s.get("op") == "*" and s.get("args"):
                        pv = plain_var(s["args"][0])
                args[pn] = pv["name"] if pv is not None else None
        o.alts.append((cls, ctor, args, node))

    def _collect_objects(self):
        body = self.fn["body"]

        def construct_in(expr):
            """-> (class, construct-expr) for new X(...), make_shared<X>(...), make_unique<X>(...)"""
            out = []
            for x in A.walk(expr):
                if x["k"] == "CXXNewExpr" and x.get("init"):
                    ce = A.strip(x["init"], casts=False)
                    if ce.get("k") == "CXXConstructExpr":
                        out.append((ce.get("callee_class"), ce, x))
                elif x["k"] == "CallExpr" and (x.get("callee") or "") in ("std::make_shared", "std::make_unique"):
                    t = x.get("type") or ""
                    cls = None
                    for c in self.prog.records:
                        short = c.split("::")[-1]
                        if "<" + short + ">" in t or "<vfps::" + short + ">" in t or t.endswith(short + ">"):
                            cls = c
                    if cls:
                        # forwarding call: find the constructor by arity / copy construction
                        ctors = [f for f in self.prog.fns(cls + "::" + cls.split("::")[-1]) if len(f["params"]) == len(x.get("args", []))]
                        if len(x.get("args", [])) == 1 and len(ctors) > 1:
                            ctors = [f for f in ctors if f.get("copy_ctor")]
                        fake = {"callee_sig": ctors[0]["sig"] if len(ctors) == 1 else None, "args": x.get("args", []),
                                "callee_params": [p["name"] for p in ctors[0]["params"]] if len(ctors) == 1 else []}
                        out.append((cls, fake, x))
            return out
        for x in A.walk(body):
            if x["k"] == "DeclStmt":
                for d in x["decls"]:
                    if d.get("k") != "VarDecl":
                        continue
                    ini = d.get("init")
                    if ini is None:
                        continue
                    c = A.strip(ini, casts=False)
                    if c.get("k") == "CXXConstructExpr" and (c.get("callee_class") or "").startswith("vfps::") and not c.get("elidable"):
                        self._record(d["name"], c["callee_class"], c, x)
                    for cls, ce, node in construct_in(ini):
                        if cls and cls.startswith("vfps::"):
                            self._record(d["name"], cls, ce, node)
                    pv = plain_var(ini)
                    if pv is not None and pv["name"] != d["name"]:
                        self.alias.setdefault(d["name"], set()).add(pv["name"])
            elif x["k"] in ("BinaryOperator", "CXXOperatorCallExpr") and x.get("op") == "=":
                lhs = x["c"][0] if x["k"] == "BinaryOperator" else x["args"][0]
                rhs = x["c"][1] if x["k"] == "BinaryOperator" else x["args"][1]
                lv = plain_var(lhs)
                if lv is None:
                    continue
                for cls, ce, node in construct_in(rhs):
                    if cls and cls.startswith("vfps::"):
                        self._record(lv["name"], cls, ce, node)
                pv = plain_var(rhs)
                if pv is not None:
                    self.alias.setdefault(lv["name"], set()).add(pv["name"])
            elif x["k"] == "CXXMemberCallExpr" and (x.get("callee") or "").endswith("::reset") and x.get("args"):
                lv = plain_var(A.call_object(x))
                if lv is None:
                    continue
                for cls, ce, node in construct_in(x["args"][0]):
                    if cls and cls.startswith("vfps::"):
                        self._record(lv["name"], cls, ce, node)
        # aliases (wm = wkm; rfm = drfm)
        changed = True
        while changed:
            changed = False
            for v, srcs in self.alias.items():
                for s_ in srcs:
                    if s_ in self.objs:
                        o = self.objs.setdefault(v, Obj(v))
                        for alt in self.objs[s_].alts:
                            tagged = alt + (s_,)
                            if not any(a[3] is alt[3] for a in o.alts):
                                o.alts.append(alt[:4])
                                o.__dict__.setdefault("via", {})[id(alt[3])] = s_
                                changed = True

    # -- locating members --------------------------------------------------------------------------
    def member_var(self, var, member, alt=None):
        """main variables the member of object `var` may be bound to (through constructor arguments)"""
        out = set()
        o = self.objs.get(var)
        if o is None:
            return out
        for (cls, ctor, args, node) in (o.alts if alt is None else [alt]):
            if ctor is None:
                continue
            mb = E.member_bindings(self.prog, ctor)
            p = mb.get(member)
            if p is not None and args.get(p) is not None:
                out.add(args[p])
        return out

    def canonical(self, var):
        """follow pure aliases (rfm -> drfm) to the variable that owns the object, when unique"""
        seen = set()
        while var in self.alias and len(self.alias[var]) == 1 and var not in seen and not any(
                a for a in self.objs.get(var, Obj(var)).alts if id(a[3]) not in self.objs.get(var).__dict__.get("via", {})):
            seen.add(var)
            var = next(iter(self.alias[var]))
        return var

    def resolve_path(self, var, path, alt=None):
        """object path of a summary ('this', 'this._field._phasespace') -> set of main variables"""
        cur = {var}
        parts = path.split(".")[1:] if path.startswith("this") else None
        if parts is None:
            return set()
        for m in parts:
            nxt = set()
            for v in cur:
                nxt |= self.member_var(v, m, alt if v == var else None)
            cur = nxt
        return cur

    # -- effects of one call node ------------------------------------------------------------------
    def call_effects(self, call):
        """-> dict(var, method, reads:set, writes:set, may_writes:set, alts) of main-level locations for a member
        call on a main object; None if the receiver is not a main object"""
        if call["id"] in self._cache:
            return self._cache[call["id"]]
        res = None
        if call.get("k") == "CXXMemberCallExpr":
            recv = plain_var(A.call_object(call))
            if recv is None:
                o = A.strip(A.call_object(call)) if A.call_object(call) is not None else None
                while o is not None:
                    if o.get("k") == "CXXOperatorCallExpr" and o.get("op") in ("->", "*") and o.get("args"):
                        o = A.strip(o["args"][0])
                    elif o.get("k") == "UnaryOperator" and o.get("op") in ("*", "&") and o.get("c"):
                        o = A.strip(o["c"][0])          # (*ptr).f()  /  (&obj)->f()
                    else:
                        break
                recv = A.declref(o) if o is not None else None
            if recv is not None and recv["name"] in self.objs and (call.get("callee_class") or "").startswith("vfps::"):
                var = recv["name"]
                o = self.objs[var]
                callee = self.prog.functions.get(call.get("callee_sig"))
                reads_all, writes_must, writes_may = set(), None, set()
                alts_used = []
                for alt in o.alts:
                    cls = alt[0]
                    fn = self.eff.resolve_callee(call.get("callee_sig"), call.get("callee"), cls if call.get("callee_virtual") else None) or callee
                    if fn is None or not fn.get("body"):
                        continue
                    known = {}
                    for pn, a_ in zip([p["name"] for p in fn["params"]], call.get("args", [])):
                        c_ = A.strip(a_)
                        if c_.get("k") == "DeclRefExpr" and c_.get("dkind") == "EnumConstant":
                            known[pn] = c_["enumval"]
                        elif c_.get("k") == "IntegerLiteral":
                            known[pn] = c_["value"]
                        elif c_.get("k") == "CXXBoolLiteralExpr":
                            known[pn] = 1 if c_["value"] else 0
                    sm = self.eff.summary(fn, cls, known=known)
                    argmap = {}
                    names = [p["name"] for p in fn["params"]]
                    for pn, a_ in zip(names, call.get("args", [])):
                        pv = plain_var(a_)
                        if pv is None:
                            s_ = A.strip(a_)
                            if s_.get("k") == "UnaryOperator" and s_.get("op") in ("&", "*"):
                                pv = plain_var(s_["c"][0])
                            elif s_.get("k") == "CXXOperatorCallExpr" and s_.get("op") == "*" and s_.get("args"):
                                pv = plain_var(s_["args"][0])
                        argmap[pn] = pv["name"] if pv is not None else None
                    owner = o.__dict__.get("via", {}).get(id(alt[3]), var)

                    def lift(locs):
                        out = set()
                        for (op, f, sel) in locs:
                            if op.startswith("this"):
                                for v in self.resolve_path(owner, op, None):
                                    out.add((v, f, sel))
                            elif op.startswith("param:"):
                                rest = op[6:].split(".")
                                v0 = argmap.get(rest[0])
                                if v0 is None:
                                    continue
                                cur = {v0}
                                for m in rest[1:]:
                                    nxt = set()
                                    for v in cur:
                                        nxt |= self.member_var(v, m)
                                    cur = nxt
                                for v in cur:
                                    out.add((v, f, sel))
                        return out
                    argnode = dict(zip(names, call.get("args", [])))

                    def subst(locs):
                        out = set()
                        for (op, f, sel) in locs:
                            if isinstance(sel, tuple) and sel[0] == "param":
                                a_ = argnode.get(sel[1])
                                sel = E._first_sel(a_, set()) if a_ is not None else None
                            out.add((op, f, sel))
                        return out
                    r, w = lift(subst(sm.reads)), lift(subst(sm.writes))
                    reads_all |= r
                    writes_may |= w
                    writes_must = w if writes_must is None else (writes_must & w)
                    alts_used.append(cls)
                res = dict(var=var, method=(call.get("callee") or "").split("::")[-1], reads=reads_all,
                           writes=writes_must or set(), may_writes=writes_may, alts=alts_used, node=call)
        if res is not None and not call.get("callee_virtual"):
            callee = self.prog.functions.get(call.get("callee_sig"))
            seq = self._this_call_sequence(callee) if callee is not None else None
            if seq:
                subs = []
                for sub in seq:
                    fake = dict(sub)
                    fake["fn"] = call["fn"]          # same receiver
                    fake["id"] = -sub["id"] - 1000000 * (call["id"] % 1000)
                    se = self.call_effects(fake)
                    if se is None:
                        subs = None
                        break
                    subs.append(se)
                if subs:
                    res["sequence"] = subs
        self._cache[call["id"]] = res
        return res

    def _this_call_sequence(self, fn):
        """if the body of fn is just a sequence of calls on its own object (plus a return), the list of those calls"""
        body = fn.get("body")
        if not body or body["k"] != "CompoundStmt":
            return None
        calls = []
        for st in body.get("c", []):
            x = A.strip(st, casts=False)
            if x["k"] == "ReturnStmt":
                continue
            if x["k"] == "CXXMemberCallExpr" and x.get("callee_in_root") and (A.call_object(x) is None or A.is_this(A.call_object(x))) and not x.get("args"):
                calls.append(x)
            else:
                return None
        return calls if len(calls) >= 2 else None

    def events(self, cfg=None):
        """all member calls on main objects, in CFG blocks (block id, index, node, effects)"""
        out = []
        cfg = cfg or self.cfg
        for bid, b in cfg.blocks.items():
            if bid not in cfg.reach_from_entry:
                continue
            for i, n in enumerate(b["elems"]):
                if n.get("k") == "CXXMemberCallExpr":
                    e = self.call_effects(n)
                    if e is not None:
                        out.append((bid, i, n, e))
        return out


    # -- loop-invariant null tests -------------------------------------------------------------------
    def main_loop(self):
        wh = [x for x in A.walk(self.fn["body"]) if x["k"] == "WhileStmt"]
        loops = [w for w in wh if any(y["k"] == "DeclRefExpr" and y["name"] == "simulationstep" for y in A.walk(w["cond"]))]
        A.require(len(loops) == 1, "main: simulation loop not found")
        return loops[0]

    def null_invariants(self):
        """pointer-like locals that are only assigned before the simulation loop, grouped into classes of variables
        that receive their non-null value in the same basic block (hence are null / non-null together)"""
        loop = self.main_loop()
        loop_ids = {y["id"] for y in A.walk(loop)}
        cand = {}
        for x in A.walk(self.fn["body"]):
            if x["k"] == "DeclStmt":
                for d in x["decls"]:
                    t = d.get("ctype") or ""
                    if d.get("k") == "VarDecl" and (t.endswith("*") or "shared_ptr<" in t or "unique_ptr<" in t):
                        cand[d["name"]] = d
        assigned_at = {v: [] for v in cand}
        for x in A.walk(self.fn["body"]):
            tgt = None
            if x["k"] in ("BinaryOperator", "CXXOperatorCallExpr") and x.get("op") == "=":
                lhs = x["c"][0] if x["k"] == "BinaryOperator" else x["args"][0]
                tgt = plain_var(lhs)
            elif x["k"] == "CXXMemberCallExpr" and (x.get("callee") or "").endswith("::reset"):
                tgt = plain_var(A.call_object(x))
            if tgt is not None and tgt["name"] in cand:
                assigned_at[tgt["name"]].append(x)
        inv = {}
        for v, sites in assigned_at.items():
            if any(s_["id"] in loop_ids or s_["line"] > loop["line"] for s_ in sites):
                continue
            blocks = set()
            for s_ in sites:
                pos = self.cfg.where(s_)
                if pos is not None:
                    blocks.add(pos[0])
            inv[v] = frozenset(blocks)
        # only variables that are actually null-tested
        tested = set()
        for b in self.cfg.blocks.values():
            c = b.get("cond")
            if c is not None:
                t = self.null_test(c)
                if t is not None:
                    tested.add(t[0])
        classes = {}
        for v, bl in inv.items():
            if v in tested:
                classes.setdefault(bl, set()).add(v)
        return [frozenset(vs) for vs in classes.values()]

    @staticmethod
    def null_test(cond):
        """(variable, True if the condition means 'non-null') for X, !X, X != nullptr, X == nullptr"""
        c = A.strip(cond)
        neg = False
        while c.get("k") == "UnaryOperator" and c.get("op") == "!":
            neg = not neg
            c = A.strip(c["c"][0])
        if c.get("k") == "BinaryOperator" and c.get("op") in ("!=", "=="):
            l, r = A.strip(c["c"][0]), A.strip(c["c"][1])
            for a_, b_ in ((l, r), (r, l)):
                if b_.get("k") in ("CXXNullPtrLiteralExpr", "GNUNullExpr") or (b_.get("k") == "IntegerLiteral" and b_.get("value") == 0):
                    d = A.declref(a_)
                    if d is not None:
                        return d["name"], (c["op"] == "!=") != neg
            return None
        if c.get("k") == "CXXOperatorCallExpr" and c.get("op") in ("!=", "==") and len(c.get("args", [])) == 2:
            l, r = A.strip(c["args"][0]), A.strip(c["args"][1])
            for a_, b_ in ((l, r), (r, l)):
                if b_.get("k") == "CXXNullPtrLiteralExpr":
                    d = A.declref(a_)
                    if d is not None:
                        return d["name"], (c["op"] == "!=") != neg
            return None
        if c.get("k") == "CXXMemberCallExpr" and "operator bool" in (c.get("callee") or ""):
            d = plain_var(A.call_object(c))
            if d is not None:
                return d["name"], not neg
        d = A.declref(c)
        if d is not None and ((d.get("dtype") or "").endswith("*")):
            return d["name"], not neg
        return None

    def sign_variables(self, cap=2):
        """const integer locals of main that are compared with the literal 0 in at least two branch conditions: along one run such a
        variable has one sign, so branches on it are correlated (`if (r > 0) refresh(); ... if (r > 0) use();`)"""
        decls = {}
        for x in A.walk(self.fn["body"]):
            if x["k"] == "DeclStmt":
                for d in x["decls"]:
                    if d.get("k") == "VarDecl" and d.get("is_const") and (d.get("ctype") or "").replace("const ", "").strip() in \
                            ("int", "unsigned int", "long", "unsigned long", "short", "unsigned short", "long long", "unsigned long long"):
                        decls[d["decl"]] = d["name"]
        uses = {}
        for x in A.walk(self.fn["body"]):
            if x["k"] in ("IfStmt", "WhileStmt", "ForStmt", "ConditionalOperator") and isinstance(x.get("cond"), dict):
                for y in A.walk(x["cond"]):
                    t = self.sign_test(y)
                    if t is not None and t[0] in decls:
                        uses.setdefault(t[0], set()).add(x["id"])
        return [(d_, decls[d_]) for d_, ids in sorted(uses.items(), key=lambda kv: -len(kv[1])) if len(ids) >= 2][:cap]

    @staticmethod
    def sign_test(c):
        """(decl, op) for `v op 0` / `0 op v` (op normalised to v on the left), else None"""
        c = A.strip(c)
        if c.get("k") != "BinaryOperator" or c.get("op") not in ("<", "<=", ">", ">=", "==", "!="):
            return None
        l, r = A.strip(c["c"][0]), A.strip(c["c"][1])
        flip = {"<": ">", "<=": ">=", ">": "<", ">=": "<=", "==": "==", "!=": "!="}
        for a_, b_, op in ((l, r, c["op"]), (r, l, flip[c["op"]])):
            if b_.get("k") == "IntegerLiteral" and b_.get("value") == 0:
                d = A.declref(a_)
                if d is not None and d.get("local"):
                    return d["decl"], op
        return None

    def case_split(self, refine=False, loop_continues=False):
        """[(assumption {var: bool}, pruned CFG)] over all truth assignments of the null-invariant classes; with refine=True additionally
        over the sign (-1, 0, +1) of the const integers of sign_variables().  Branch conditions are evaluated three-valued through
        !, && and ||, so `wkm != nullptr || x` is true under the assumption that wkm is non-null."""
        import itertools
        classes = self.null_invariants()
        signs = self.sign_variables() if refine else []
        out = []
        for bits in itertools.product([True, False], repeat=len(classes)):
            for sg in itertools.product([-1, 0, 1], repeat=len(signs)):
                asg = {}
                for cl, b in zip(classes, bits):
                    for v in cl:
                        asg[v] = b
                sgn = {d_: s_ for (d_, nm_), s_ in zip(signs, sg)}
                label = dict(asg)
                for (d_, nm_), s_ in zip(signs, sg):
                    label["sign(%s)" % nm_] = s_

                def decide(cond, asg=asg, sgn=sgn):
                    c = A.strip(cond)
                    if loop_continues:
                        # for statements about the iterations that follow: the loop goes on only while the abort flag is unset, and nothing
                        # but the signal handler sets it (C14 R1/R2), so within a continuing run a test of the flag reads `false`
                        d_ = A.declref(c)
                        if d_ is not None and (d_.get("qname") or "").endswith("Display::abort"):
                            return False
                        if c.get("k") == "MemberExpr" and (c.get("member") or {}).get("name") == "abort" and "Display" in (c.get("member") or {}).get("qname", ""):
                            return False
                    if c.get("k") == "UnaryOperator" and c.get("op") == "!":
                        v = decide(c["c"][0])
                        return None if v is None else (not v)
                    if c.get("k") == "BinaryOperator" and c.get("op") in ("&&", "||"):
                        a_, b_ = decide(c["c"][0]), decide(c["c"][1])
                        if c["op"] == "&&":
                            return False if (a_ is False or b_ is False) else (True if (a_ is True and b_ is True) else None)
                        return True if (a_ is True or b_ is True) else (False if (a_ is False and b_ is False) else None)
                    t = self.null_test(c)
                    if t is not None and t[0] in asg:
                        return asg[t[0]] == t[1]
                    st = self.sign_test(c)
                    if st is not None and st[0] in sgn:
                        s_ = sgn[st[0]]
                        return {"<": s_ < 0, "<=": s_ <= 0, ">": s_ > 0, ">=": s_ >= 0, "==": s_ == 0, "!=": s_ != 0}[st[1]]
                    return None
                out.append((label, self.cfg.pruned(decide)))
        return out


    def final_block(self):
        """the IfStmt after the loop that writes the final record, found by what it does (it appends to the results file), with the
        conjuncts of its condition resolved through const bool locals: -> (IfStmt, [conjunct nodes])"""
        loop = self.main_loop()
        loop_ids = {y["id"] for y in A.walk(loop)}
        cands = [x for x in A.walk(self.fn["body"]) if x["k"] == "IfStmt" and x["line"] > loop.get("eline", loop["line"]) and x["id"] not in loop_ids and
                 any((y.get("callee") or "").startswith("vfps::HDF5File::append") for y in A.walk(x["then"]))]
        top = [x for x in cands if not any(x["id"] in {y["id"] for y in A.walk(o["then"])} for o in cands if o is not x)]
        A.require(len(top) >= 1, "main: final-record block not found")
        fb = top[0]
        named = {}
        for st in A.walk(self.fn["body"]):
            if st["k"] == "DeclStmt":
                for d in st["decls"]:
                    if d.get("k") == "VarDecl" and d.get("is_const") and (d.get("ctype") or "").replace("const ", "").strip() == "bool" and isinstance(d.get("init"), dict):
                        named[d["decl"]] = d["init"]
        conj = []

        def split(n, depth=0):
            n = A.strip(n)
            if n.get("k") == "BinaryOperator" and n.get("op") == "&&":
                split(n["c"][0], depth); split(n["c"][1], depth)
            elif n.get("k") == "DeclRefExpr" and n.get("decl") in named and depth < 4:
                split(named[n["decl"]], depth + 1)
            else:
                conj.append(n)
        split(fb["cond"])
        return fb, conj

    def output_block(self):
        """the IfStmt of the loop body that holds the per-record output (the one that appends to the results file)"""
        loop = self.main_loop()
        body = loop["body"]
        cands = []
        for x in A.walk(body):
            if x["k"] == "IfStmt" and any((y.get("callee") or "").startswith("vfps::HDF5File::append") for y in A.walk(x["then"])):
                cands.append(x)
        # outermost candidate that is a direct statement of the loop body
        top = [x for x in cands if not any(x["id"] in {y["id"] for y in A.walk(o["then"])} for o in cands if o is not x)]
        A.require(len(top) == 1, "main: output block of the loop not found (%d candidates)" % len(top))
        return top[0]
