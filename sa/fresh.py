"""Freshness typestate over main(): which derived quantities (projections, integrals, moments, CSR
spectrum, wake offsets) are up to date with respect to the grid data they are computed from, at
every program point.  Transfer functions come from the E4 effect summaries (mainmodel), not from a
hand-written list: a call kills every fact that (transitively) depends on something it may write,
and makes what it must write fresh if everything it reads is fresh.

Forward MUST analysis (intersection at joins) over the CFG of main at element granularity."""
from . import ast as A
from .compdb import AnalysisBroken

# fields that hold derived quantities, per class of object (everything else that is read is a source)
DERIVED_FIELDS = {"_projection", "_filling", "_integral", "_moment", "_rms", "_csrspectrum", "_csrintensity",
                  "_offset", "_hinfo", "_wakepotential", "_wakepotential_padded", "_formfactor", "_wakelosses", "_bp_padded"}
SOURCE_FIELDS = {"_data"}


def norm_loc(loc):
    v, f, sel = loc
    if isinstance(sel, tuple):
        sel = None
    return (v, f, sel)


def covers(a, b):
    """does location a (selector None = whole field) overlap location b?"""
    return a[0] == b[0] and a[1] == b[1] and (a[2] is None or b[2] is None or a[2] == b[2])


class Freshness:
    def __init__(self, mm, cfg=None):
        self.mm = mm
        self.cfg = cfg or mm.cfg
        self.events = mm.events(self.cfg)
        self.by_node = {n["id"]: e for (_, _, n, e) in self.events}
        # tracked derived locations and their static dependencies
        self.deps = {}
        writers = {}
        for (_, _, n, e) in self.events:
            ext_reads = {norm_loc(r) for r in e["reads"]} - {norm_loc(w) for w in e["may_writes"]}
            ext_reads = {r for r in ext_reads if r[1] in DERIVED_FIELDS or r[1] in SOURCE_FIELDS}
            for w in e["may_writes"]:
                w = norm_loc(w)
                if w[1] not in DERIVED_FIELDS:
                    continue
                key = (e["var"], e["method"])
                writers.setdefault(w, set()).add(key)
                self.deps.setdefault(w, set()).update(ext_reads)
        self.writers = writers
        self.tracked = set(self.deps)
        for d in list(self.deps.values()):
            for r in d:
                if r[1] in DERIVED_FIELDS and r not in self.deps:
                    self.deps.setdefault(r, set())
        self.tracked = set(self.deps)

    def dependents(self, loc):
        """tracked facts that transitively depend on loc"""
        out, st = set(), [loc]
        while st:
            x = st.pop()
            for f, ds in self.deps.items():
                if f in out:
                    continue
                if any(covers(x, d) or covers(d, x) for d in ds):
                    out.add(f); st.append(f)
        return out

    def transfer(self, n, facts):
        e = self.by_node.get(n.get("id"))
        if e is None:
            return facts
        if e.get("sequence"):
            for sub in e["sequence"]:
                facts = self._apply(sub, facts)
            return facts
        return self._apply(e, facts)

    def _apply(self, e, facts):
        may = {norm_loc(w) for w in e["may_writes"]}
        must = {norm_loc(w) for w in e["writes"]}
        reads = {norm_loc(r) for r in e["reads"]} - may
        need = [r for r in reads if r[1] in DERIVED_FIELDS]
        ok = all(any(covers(f, r) and (f[2] is not None or r[2] is None or True) for f in facts if f[0] == r[0] and f[1] == r[1] and (f[2] == r[2] or f[2] is None or r[2] is None)) for r in need)
        kill = set()
        for w in may:
            for f in self.tracked:
                if covers(w, f):
                    kill.add(f)
            kill |= self.dependents(w)
        out = set(facts) - kill
        if ok:
            for w in must:
                if w[1] in DERIVED_FIELDS:
                    for f in self.tracked:
                        if covers(w, f) and (w[2] == f[2] or w[2] is None):
                            out.add(f)
                    out.add(w)
        return frozenset(out)

    def run(self):
        universe = set(self.tracked)
        self.result = self.cfg.forward(self.transfer, universe, must=True, init=frozenset())
        return self.result

    def killers(self):
        """forward MAY analysis: (fact, killer) pairs 'fact is stale because killer wrote something it depends on'"""
        def tr(n, facts):
            e0 = self.by_node.get(n.get("id"))
            if e0 is None:
                return facts
            for e in (e0.get("sequence") or [e0]):
                facts = tr1(e, facts)
            return facts

        def tr1(e, facts):
            may = {norm_loc(w) for w in e["may_writes"]}
            must = {norm_loc(w) for w in e["writes"]}
            kill = set()
            for w in may:
                for f in self.tracked:
                    if covers(w, f):
                        kill.add(f)
                kill |= self.dependents(w)
            out = set(facts)
            regen = {f for f in self.tracked for w in must if covers(w, f)}
            out = {(f, k) for (f, k) in out if f not in regen}
            tag = "%s.%s" % (e["var"], e["method"])
            for f in kill - regen:
                out.add((f, tag))
            # a regenerated fact inherits staleness from stale inputs
            reads = {norm_loc(r) for r in e["reads"]} - may
            for f in regen:
                for (g, k) in facts:
                    if any(covers(g, r) for r in reads):
                        out.add((f, k))
            return frozenset(out)
        return self.cfg.forward(tr, set(), must=False, init=frozenset())

    def before(self, node):
        pos = self.cfg.where(node)
        if pos is None:
            raise AnalysisBroken("call at line %s not in the CFG" % node.get("line"))
        return self.result[pos], pos
